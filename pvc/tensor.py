"""Index-symbolic tensors: shape is a tuple of sympy integers (symbolic or
concrete), the element is a function of index terms.  Implements the numpy
subset chi uses.  Concrete-shape numpy object arrays of `S` are handled by the
real numpy; `T` is used as soon as some axis length is symbolic."""
import numpy as _np
import sympy as sp
from sympy import Integer
from . import sym
from .sym import S, B, w, mk, mkB, fidx, decide, Unsupported, Lg, Ex, Erf


def simp_int(e):
    e = sp.sympify(e)
    if e.is_Integer:
        return e
    return sp.expand(e)


def dimeq(a, b):
    a, b = sp.sympify(a), sp.sympify(b)
    d = sp.expand(a - b)
    if d == 0:
        return True
    if d.is_number:
        return False
    return decide(sp.Eq(a, b))


def is_one(d):
    return dimeq(d, 1)


def all_idx(shape, names='abcdefg'):
    return tuple(fidx(names[k % len(names)]) for k in range(len(shape)))


class T(object):
    __array_ufunc__ = None
    __array_priority__ = 2000

    def __init__(self, shape, fn, boolean=False):
        self._shape = tuple(simp_int(w(d)) for d in shape)
        self.fn = fn
        self.boolean = boolean

    @property
    def shape(s):
        return tuple(int(d) if d.is_Integer else S(d) for d in s._shape)

    ndim = property(lambda s: len(s._shape))

    @property
    def size(s):
        r = Integer(1)
        for d in s._shape:
            r = r * d
        return S(r)

    def el(s, *idx):
        return s.fn(tuple(sp.sympify(w(i)) for i in idx))

    # ---- conversion
    @staticmethod
    def lift(x):
        """anything array-like -> T"""
        if isinstance(x, T):
            return x
        if isinstance(x, (S, B)) or _np.isscalar(x):
            v = w(x)
            return T((), lambda idx: v)
        a = _np.asarray(x, dtype=object) if not isinstance(x, _np.ndarray) else x
        shp = a.shape

        def fn(idx, a=a):
            if all(sp.sympify(i).is_Integer for i in idx):
                return w(a[tuple(int(i) for i in idx)])
            # piecewise over all cells (small concrete arrays only)
            if a.size > 64:
                raise Unsupported('symbolic index into large concrete array')
            pieces = []
            for cell in _np.ndindex(*shp):
                cond = sp.And(*[sp.Eq(i, c) for i, c in zip(idx, cell)])
                pieces.append((w(a[cell]), cond))
            return sp.Piecewise(*pieces) if pieces else Integer(0)
        return T(shp, fn)

    def concrete(s):
        """if the shape is concrete: numpy object array of S / numbers"""
        if not all(d.is_Integer for d in s._shape):
            raise Unsupported('tensor with symbolic shape %s needed concretely' % (s._shape,))
        shp = tuple(int(d) for d in s._shape)
        out = _np.empty(shp, dtype=object)
        for cell in _np.ndindex(*shp):
            out[cell] = mk(s.fn(tuple(Integer(c) for c in cell)))
        return out

    # ---- broadcasting
    @staticmethod
    def bshape(a, b):
        n = max(len(a), len(b))
        a = (Integer(1),) * (n - len(a)) + tuple(a)
        b = (Integer(1),) * (n - len(b)) + tuple(b)
        out = []
        for x, y in zip(a, b):
            if x == 1:
                out.append(y)
            elif y == 1:
                out.append(x)
            elif dimeq(x, y):
                out.append(x)
            elif is_one(x):
                out.append(y)
            elif is_one(y):
                out.append(x)
            else:
                raise ValueError('operands could not be broadcast together with shapes %s %s' % (a, b))
        return tuple(out)

    def bmask(s, outshape):
        """which axes of s are stretched by broadcasting to outshape (decided now, on the current path)"""
        off = len(outshape) - len(s._shape)
        return tuple((d == 1 and outshape[off + k] != 1) or (d != 1 and outshape[off + k] != d and is_one(d))
                     for k, d in enumerate(s._shape))

    def at(s, idx, outshape, mask=None):
        off = len(outshape) - len(s._shape)
        if mask is None:
            mask = s.bmask(outshape)
        ii = [Integer(0) if mask[k] else idx[off + k] for k in range(len(s._shape))]
        return s.fn(tuple(ii))

    def _bin(s, o, op, rev=False, boolean=False):
        if isinstance(o, (list, tuple, _np.ndarray)):
            o = T.lift(o)
        if isinstance(o, T):
            sh = T.bshape(s._shape, o._shape)
            ms, mo = s.bmask(sh), o.bmask(sh)
            if rev:
                return T(sh, lambda idx: op(o.at(idx, sh, mo), s.at(idx, sh, ms)), boolean)
            return T(sh, lambda idx: op(s.at(idx, sh, ms), o.at(idx, sh, mo)), boolean)
        v = w(o)
        if rev:
            return T(s._shape, lambda idx: op(v, s.fn(idx)), boolean)
        return T(s._shape, lambda idx: op(s.fn(idx), v), boolean)

    def __add__(s, o): return s._bin(o, lambda a, b: a + b)
    def __radd__(s, o): return s._bin(o, lambda a, b: a + b, True)
    def __sub__(s, o): return s._bin(o, lambda a, b: a - b)
    def __rsub__(s, o): return s._bin(o, lambda a, b: a - b, True)
    def __mul__(s, o): return s._bin(o, lambda a, b: a * b)
    def __rmul__(s, o): return s._bin(o, lambda a, b: a * b, True)
    def __truediv__(s, o): return s._bin(o, lambda a, b: a / b)
    def __rtruediv__(s, o): return s._bin(o, lambda a, b: a / b, True)
    def __pow__(s, o): return s._bin(o, lambda a, b: sym._pow(a, sp.sympify(b)))
    def __rpow__(s, o): return s._bin(o, lambda a, b: sym._pow(a, sp.sympify(b)), True)
    def __neg__(s): return T(s._shape, lambda idx: -s.fn(idx))
    def __pos__(s): return s
    def __lt__(s, o): return s._bin(o, lambda a, b: relterm(sp.Lt, a, b), boolean=True)
    def __le__(s, o): return s._bin(o, lambda a, b: relterm(sp.Le, a, b), boolean=True)
    def __gt__(s, o): return s._bin(o, lambda a, b: relterm(sp.Gt, a, b), boolean=True)
    def __ge__(s, o): return s._bin(o, lambda a, b: relterm(sp.Ge, a, b), boolean=True)
    def __eq__(s, o): return s._bin(o, lambda a, b: relterm(sp.Eq, a, b), boolean=True)
    def __ne__(s, o): return s._bin(o, lambda a, b: relterm(sp.Ne, a, b), boolean=True)
    __hash__ = None

    def __or__(s, o): return s._bin(o, lambda a, b: sp.Or(a, b), boolean=True)
    def __and__(s, o): return s._bin(o, lambda a, b: sp.And(a, b), boolean=True)
    def __invert__(s): return T(s._shape, lambda idx: sp.Not(s.fn(idx)), True)

    def __len__(s):
        if not s._shape:
            raise TypeError('len() of unsized object')
        d = s._shape[0]
        if d.is_Integer:
            return int(d)
        raise Unsupported('len() of tensor with symbolic length (builtin len not shadowed here)')

    def __iter__(s):
        d = s._shape[0]
        if not d.is_Integer:
            raise Unsupported('iteration over tensor axis of symbolic length %s' % d)
        for k in range(int(d)):
            yield s[k]

    def __bool__(s):
        if all(d == 1 for d in s._shape):
            e = s.fn((Integer(0),) * len(s._shape))
            return bool(mk(e))
        raise ValueError('The truth value of an array with more than one element is ambiguous')

    def __repr__(s):
        return 'T(shape=%s)' % (s._shape,)

    # ---- indexing
    def _norm_key(s, key):
        if not isinstance(key, tuple):
            key = (key,)
        if any(k is Ellipsis for k in key):
            i = [k is Ellipsis for k in key].index(True)
            nreal = sum(1 for k in key if k is not None and k is not Ellipsis)
            key = key[:i] + (slice(None),) * (len(s._shape) - nreal) + key[i + 1:]
        nreal = sum(1 for k in key if k is not None)
        if nreal > len(s._shape):
            raise IndexError('too many indices for array')
        return key + (slice(None),) * (len(s._shape) - nreal)

    def __getitem__(s, key):
        if isinstance(key, T) and key.boolean:
            if s.ndim != 1 or key.ndim != 1:
                raise Unsupported('boolean-mask indexing on tensors with more than one axis')
            return Filtered(s, key)
        if isinstance(key, T) and not key.boolean:
            # integer-array indexing on the first axis
            rest = s._shape[1:]
            kshape = key._shape
            nk = len(kshape)
            return T(kshape + rest, lambda idx: s.fn((key.fn(tuple(idx[:nk])),) + tuple(idx[nk:])), s.boolean)
        key = s._norm_key(key)
        outshape = []
        plan = []
        src = 0
        for k in key:
            if k is None:
                outshape.append(Integer(1))
                continue
            d = s._shape[src]
            if isinstance(k, slice):
                if k.step is not None and k.step != 1:
                    raise Unsupported('strided slice')
                lo = Integer(0) if k.start is None else sp.sympify(w(k.start))
                hi = d if k.stop is None else sp.sympify(w(k.stop))
                if lo.is_negative:
                    lo = d + lo
                if hi.is_negative:
                    hi = d + hi
                # numpy clips slice bounds: require 0 <= lo <= hi <= d on this path
                if not (lo == 0):
                    _need(sp.And(lo >= 0, lo <= d), 'slice start in range')
                if not (hi == d):
                    _need(sp.And(hi >= lo, hi <= d), 'slice stop in range')
                plan.append(('out', len(outshape), lo))
                outshape.append(simp_int(hi - lo))
            elif isinstance(k, (list, _np.ndarray)) and _np.asarray(k).ndim == 1 and _np.asarray(k).dtype.kind in 'iu':
                arr = [int(v) for v in _np.asarray(k)]
                for v in arr:
                    if not (d.is_Integer and -int(d) <= v < int(d)):
                        _need(sp.And(v >= 0, v < d), 'index in bounds')
                plan.append(('map', len(outshape), arr))
                outshape.append(Integer(len(arr)))
            elif isinstance(k, (T, list, _np.ndarray)):
                raise Unsupported('advanced indexing on symbolic tensor')
            else:
                kk = sp.sympify(w(k))
                if kk.is_negative:
                    kk = d + kk
                if not (kk.is_Integer and d.is_Integer and 0 <= kk < d):
                    _need(sp.And(kk >= 0, kk < d), 'index in bounds')
                plan.append(('fix', kk))
            src += 1

        def fn(idx):
            ii = []
            for p in plan:
                if p[0] == 'fix':
                    ii.append(p[1])
                elif p[0] == 'map':
                    q = sp.sympify(idx[p[1]])
                    if q.is_Integer:
                        ii.append(Integer(p[2][int(q)]))
                    else:
                        ii.append(sp.Piecewise(*[(Integer(v), sp.Eq(q, c_)) for c_, v in enumerate(p[2])]))
                else:
                    ii.append(idx[p[1]] + p[2])
            return s.fn(tuple(ii))
        if not outshape:
            return mk(fn(()))
        return T(outshape, fn, s.boolean)

    def __setitem__(s, key, val):
        if isinstance(key, T) and key.boolean:
            probe = key.fn(tuple(sp.Symbol('_b%d' % k_, integer=True) for k_ in range(key.ndim)))
            if probe is sp.false:
                return           # assignment under an identically false mask
        raise Unsupported('in-place assignment into an immutable symbolic tensor')

    def reshape(s, *shape, **kw):
        if len(shape) == 1 and isinstance(shape[0], (tuple, list)):
            shape = tuple(shape[0])
        shape = [sp.sympify(w(d)) for d in shape]
        if any(d == -1 for d in shape):
            tot = w(s.size)
            known = Integer(1)
            for d in shape:
                if d != -1:
                    known = known * d
            q = sp.cancel(tot / known)
            if not q.is_integer:
                raise Unsupported('reshape -1 with non-integer quotient')
            shape = [q if d == -1 else d for d in shape]
        shape = tuple(simp_int(d) for d in shape)
        # total size must agree
        tot_a = sp.expand(w(s.size))
        tot_b = Integer(1)
        for d in shape:
            tot_b = tot_b * d
        if not dimeq(tot_a, sp.expand(tot_b)):
            raise ValueError('cannot reshape array of size %s into shape %s' % (tot_a, shape))
        # case 1: only unit axes added/removed
        a = [d for d in s._shape if d != 1]
        b = [d for d in shape if d != 1]
        if len(a) == len(b) and all(sp.expand(x - y) == 0 for x, y in zip(a, b)):
            srcpos = [k for k, d in enumerate(s._shape) if d != 1]
            dstpos = [k for k, d in enumerate(shape) if d != 1]

            def fn(idx):
                ii = [Integer(0)] * len(s._shape)
                for sp_, dp in zip(srcpos, dstpos):
                    ii[sp_] = idx[dp]
                return s.fn(tuple(ii))
            return T(shape, fn, s.boolean)
        # general row-major reshape.  Unit axes are dropped, the longest common suffix of equal axes is kept as is, and only the
        # remaining leading axes are flattened / unflattened (so splitting (K*m, a, b) into (K, m, 1, a, b) maps k*m + j <-> (k, j))
        src_axes = [k for k, d in enumerate(s._shape) if d != 1]
        dst_axes = [k for k, d in enumerate(shape) if d != 1]
        n_suf = 0
        while n_suf < min(len(src_axes), len(dst_axes)) and \
                sp.expand(s._shape[src_axes[-1 - n_suf]] - shape[dst_axes[-1 - n_suf]]) == 0:
            n_suf += 1
        src_pre, dst_pre = src_axes[:len(src_axes) - n_suf], dst_axes[:len(dst_axes) - n_suf]
        src_suf, dst_suf = src_axes[len(src_axes) - n_suf:], dst_axes[len(dst_axes) - n_suf:]

        def strides(dims):
            st = []
            acc = Integer(1)
            for d in reversed(dims):
                st.append(acc)
                acc = acc * d
            return list(reversed(st))
        st_src = strides([s._shape[k] for k in src_pre])
        st_dst = strides([shape[k] for k in dst_pre])

        def fn(idx):
            ii = [Integer(0)] * len(s._shape)
            for a_, b_ in zip(src_suf, dst_suf):
                ii[a_] = idx[b_]
            flat = sp.expand(sum((idx[k] * st for k, st in zip(dst_pre, st_dst)), Integer(0)))
            rem = flat
            for n_, (k, st) in enumerate(zip(src_pre, st_src)):
                if n_ == len(src_pre) - 1:
                    ii[k] = rem
                else:
                    q = sp.floor(rem / st)
                    ii[k] = q
                    rem = rem - q * st
            return s.fn(tuple(ii))
        return T(shape, fn, s.boolean)

    def flatten(s):
        return s.reshape(-1)

    def ravel(s):
        return s.reshape(-1)

    def copy(s):
        return T(s._shape, s.fn, s.boolean)

    def astype(s, *a, **k):
        return s

    def sum(s, axis=None, keepdims=False):
        return NPX.sum(s, axis=axis, keepdims=keepdims)

    @property
    def T_(s):
        return NPX.transpose(s)


def relterm(rel, a, b):
    r = sym._rel(rel, a, b)
    if isinstance(r, bool):
        return sp.true if r else sp.false
    return r.e


def _need(cond, what):
    """shape-safety obligation on the current path: must be entailed, otherwise the
    path splits and the failing side raises IndexError-like Unsupported"""
    cond = sp.sympify(cond)
    if cond is sp.true:
        return
    c = sym.ctx()
    if sym.entails(c.conds, cond):
        return
    c.notes.append(('need', what, cond))
    if not decide(cond):
        if what == 'index in bounds':
            raise IndexError('index out of bounds on path where not (%s)' % (cond,))
        raise Unsupported('shape obligation not met: %s: %s' % (what, cond))


class OArr(_np.ndarray):
    """object ndarray of symbolic scalars that also accepts *symbolic* integer index arrays (x[rng.choice(...)])"""

    def __getitem__(self, key):
        def symbolic_index(k):
            if isinstance(k, T):
                return True
            if isinstance(k, _np.ndarray) and k.dtype == object and k.size and isinstance(k.flat[0], S) and not k.flat[0].e.is_Integer:
                return True
            return isinstance(k, S) and not k.e.is_Integer
        if symbolic_index(key):
            r = T.lift(_np.asarray(self))[key if isinstance(key, T) else (T.lift(key) if isinstance(key, _np.ndarray) else key)]
            return r.concrete().view(OArr) if isinstance(r, T) else r
        r = _np.ndarray.__getitem__(self, key)
        return r

    def __array_wrap__(self, obj, context=None, return_scalar=False):
        # results of ufuncs / reductions behave exactly like those of a plain object ndarray (0-d results are the scalar itself)
        if isinstance(obj, _np.ndarray):
            if obj.ndim == 0:
                return obj[()]
            return obj.view(_np.ndarray)
        return obj


class MT(T):
    """mutable tensor (np.empty / np.zeros followed by slice assignment): functional updates"""

    def __init__(self, shape, init):
        T.__init__(self, shape, None)
        self.writes = []
        self.init = init
        self.fn = self._read

    def _read(s, idx):
        e = s.init
        for (plan, val) in s.writes:
            conds = []
            sub = []
            for ax, p in enumerate(plan):
                if p[0] == 'fix':
                    conds.append(sp.Eq(idx[ax], p[1]))
                else:
                    lo, hi = p[1], p[2]
                    if lo != 0:
                        conds.append(idx[ax] >= lo)
                    if sp.expand(hi - s._shape[ax]) != 0:
                        conds.append(idx[ax] < hi)
                    sub.append(idx[ax] - lo)
            cond = sp.And(*conds) if conds else sp.true
            if cond is sp.false:
                continue                 # this write does not cover the (concrete) position that is read
            if isinstance(val, T):
                vshape = tuple(simp_int(p[2] - p[1]) for p in plan if p[0] == 'out')
                v = val.at(tuple(sub), vshape, getattr(val, '_wmask', None))
            else:
                v = w(val)
            if cond is sp.true:
                e = v
            else:
                e = sp.Piecewise((v, cond), (e, True))
        return e

    def __setitem__(s, key, val):
        key = s._norm_key(key)
        plan = []
        src = 0
        for k in key:
            if k is None:
                raise Unsupported('newaxis in assignment')
            d = s._shape[src]
            if isinstance(k, slice):
                lo = Integer(0) if k.start is None else sp.sympify(w(k.start))
                hi = d if k.stop is None else sp.sympify(w(k.stop))
                plan.append(('out', lo, hi))
            else:
                kk = sp.sympify(w(k))
                if kk.is_negative:
                    kk = d + kk
                plan.append(('fix', kk))
            src += 1
        if isinstance(val, (list, tuple, _np.ndarray)):
            val = T.lift(val)
        if isinstance(val, T):
            vshape = tuple(simp_int(p[2] - p[1]) for p in plan if p[0] == 'out')
            T.bshape(vshape, val._shape)    # raises ValueError when not broadcastable
            val = T(val._shape, val.fn, val.boolean)
            val._wmask = val.bmask(vshape)
        s.writes.append((plan, val))

    def copy(s):
        m = MT(s._shape, s.init)
        m.writes = list(s.writes)
        return m


# ---------------------------------------------------------------------------
# numpy shim
# ---------------------------------------------------------------------------
def _asbool(r):
    return r.astype(bool) if isinstance(r, _np.ndarray) else bool(r)


def _symbolic(x):
    if isinstance(x, (T, S, B)):
        return True
    if isinstance(x, _np.ndarray) and x.dtype == object:
        return True
    if isinstance(x, (list, tuple)):
        return any(_symbolic(y) for y in x)
    return False


def _ew(x, f, fnum):
    """elementwise transcendental"""
    if isinstance(x, T):
        return T(x._shape, lambda idx: f(x.fn(idx)))
    if isinstance(x, S):
        return mk(f(x.e))
    if isinstance(x, (list, tuple)) and _symbolic(x):
        x = _np.asarray(x, dtype=object)
    if isinstance(x, _np.ndarray) and x.dtype == object:
        return _np.frompyfunc(lambda v: mk(f(w(v))), 1, 1)(x)
    if sym.CTX is not None and isinstance(x, (int, float)) and not isinstance(x, bool) and x == x and abs(x) != float('inf'):
        # exact constants while tracing: np.sqrt(2) stays sqrt(2), not 1.4142135623730951
        r = f(w(x))
        if not (r.is_Rational):
            return mk(r)
    return fnum(x)


def _shape_arg(shape):
    if isinstance(shape, (tuple, list)):
        return tuple(shape)
    return (shape,)


def _sym_shape(shape):
    return any(isinstance(d, (S, sp.Basic)) and not w(d).is_Integer for d in shape)


def _cshape(shape):
    return tuple(int(w(d)) for d in shape)


def _dt(dtype):
    """the names int / float / bool are re-bound to shims in the shadow modules; numpy has to see the real types"""
    from . import loader
    return {getattr(loader, 'symint', None): int, getattr(loader, 'symfloat', None): float}.get(dtype, dtype) if callable(dtype) else dtype


class _NPX(object):
    """Proxy for the numpy module inside shadow chi modules.  Falls back to the real
    numpy for everything not overridden."""
    pi = S(sp.pi)

    @property
    def random(self):
        from . import ghost
        if not hasattr(self, '_random'):
            self._random = ghost.RandomShim()
        return self._random
    inf = float('inf')
    nan = float('nan')
    newaxis = None

    def __getattr__(self, name):
        f = getattr(_np, name)
        if callable(f) and not isinstance(f, type):
            def g(*a, **k):
                if 'dtype' in k:
                    k['dtype'] = _dt(k['dtype'])
                return f(*a, **k)
            g.__name__ = name
            return g
        return f

    def __getattribute__(self, name):
        m = object.__getattribute__(self, name)
        if not name.startswith('_') and callable(m) and not isinstance(m, type) and type(m).__name__ == 'method':
            def g(*a, **k):
                if 'dtype' in k:
                    k['dtype'] = _dt(k['dtype'])
                return m(*a, **k)
            return g
        return m

    # -- construction
    def asarray(self, x, dtype=None, **kw):
        if isinstance(x, T):
            return x
        if isinstance(x, (S, B)):
            a = _np.empty((), dtype=object)
            a[()] = x
            return a
        if isinstance(x, (list, tuple)) and any(isinstance(y, T) for y in x):
            return self.stack(list(x))
        if _symbolic(x):
            return _np.asarray(x, dtype=object).view(OArr)
        return _np.asarray(x, dtype=dtype, **kw) if dtype is not None else _np.asarray(x, **kw)

    def array(self, x, dtype=None, copy=True, **kw):
        if isinstance(x, T):
            return x.copy()
        if isinstance(x, list) and len(x) == 1 and isinstance(x[0], S):
            gs = [g for g in x[0].e.free_symbols if g in GENERIC]
            if len(gs) == 1:
                g, n_ = gs[0], GENERIC[gs[0]]
                e = x[0].e
                return T((n_,), lambda idx: e.xreplace({g: idx[0]}))
        if _symbolic(x):
            return _np.array(x, dtype=object)
        return _np.array(x, dtype=dtype, **kw) if dtype is not None else _np.array(x, **kw)

    def copy(self, x):
        if isinstance(x, T):
            return x.copy()
        return _np.copy(x)

    def _filled(self, shape, val, symbolic_mode=True):
        shape = _shape_arg(shape)
        if _sym_shape(shape):
            return MT(shape, w(val))
        a = _np.empty(_cshape(shape), dtype=object)
        a[...] = val
        return a

    @staticmethod
    def _plain_dtype(dtype):
        return dtype is not None and dtype in (bool, int, _np.bool_, _np.int64, _np.int32, 'bool', 'int')

    def zeros(self, shape, dtype=None, **kw):
        if self._plain_dtype(dtype) and not _sym_shape(_shape_arg(shape)):
            return _np.zeros(_cshape(_shape_arg(shape)), dtype=dtype)
        if sym.CTX is None and not _sym_shape(_shape_arg(shape)):
            return _np.zeros(shape, dtype=dtype or float)
        return self._filled(shape, 0)

    def ones(self, shape, dtype=None, **kw):
        if self._plain_dtype(dtype) and not _sym_shape(_shape_arg(shape)):
            return _np.ones(_cshape(_shape_arg(shape)), dtype=dtype)
        if sym.CTX is None and not _sym_shape(_shape_arg(shape)):
            return _np.ones(shape, dtype=dtype or float)
        return self._filled(shape, 1)

    def empty(self, shape, dtype=None, **kw):
        if sym.CTX is None and not _sym_shape(_shape_arg(shape)):
            return _np.empty(shape, dtype=dtype or float)
        return self._filled(shape, S(sym.UNINIT))

    def full(self, shape, fill_value, dtype=None, **kw):
        if (isinstance(fill_value, (bool, _np.bool_)) or (self._plain_dtype(dtype) and not _symbolic(fill_value))) and not _sym_shape(_shape_arg(shape)):
            return _np.full(_cshape(_shape_arg(shape)), fill_value, dtype=dtype)        # masks / counters stay plain numpy arrays, as for zeros / ones
        if sym.CTX is None and not _sym_shape(_shape_arg(shape)) and not _symbolic(fill_value):
            return _np.full(shape, fill_value)
        return self._filled(shape, fill_value if isinstance(fill_value, (S,)) else mk(w(fill_value)))

    def zeros_like(self, x, **kw):
        return self.zeros(x.shape)

    def ones_like(self, x, **kw):
        return self.ones(x.shape)

    def arange(self, *a, **kw):
        if any(isinstance(x, S) and not x.e.is_Integer for x in a):
            if len(a) == 1:
                return T((w(a[0]),), lambda idx: idx[0])
            raise Unsupported('arange with symbolic start/step')
        return _np.arange(*[int(w(x)) if isinstance(x, S) else x for x in a], **kw)

    # -- elementwise
    def log(self, x):
        return _ew(x, sym.mklog, _np.log)

    def exp(self, x):
        return _ew(x, sym.mkexp, _np.exp)

    def sqrt(self, x):
        return _ew(x, sp.sqrt, _np.sqrt)

    def abs(self, x):
        return _ew(x, sp.Abs, _np.abs)

    def square(self, x):
        return _ew(x, lambda v: v ** 2, _np.square)

    def isnan(self, x):
        if _symbolic(x):
            if isinstance(x, T):
                return T(x._shape, lambda idx: sp.false, True)
            if isinstance(x, S):
                return False
            return _np.zeros(_np.shape(x), dtype=bool)
        return _np.isnan(x)

    def isinf(self, x):
        if isinstance(x, S):
            return x.e in (sp.oo, -sp.oo)
        if isinstance(x, T):
            return T(x._shape, lambda idx: sp.false, True)
        if _symbolic(x):
            return _asbool(_np.frompyfunc(lambda v: w(v) in (sp.oo, -sp.oo), 1, 1)(_np.asarray(x, dtype=object)))
        return _np.isinf(x)

    def isfinite(self, x):
        if isinstance(x, S):
            return x.e not in (sp.oo, -sp.oo, sp.nan)
        if isinstance(x, T):
            return T(x._shape, lambda idx: sp.true, True)      # reals are finite (IEEE inf/nan outside the model)
        if _symbolic(x):
            raise Unsupported('isfinite on symbolic array')
        return _np.isfinite(x)

    def _cmp(self, a, b_, name, pyop):
        if isinstance(a, T) or isinstance(b_, T):
            return pyop(a if isinstance(a, T) else T.lift(a), b_)
        if _symbolic(a) or _symbolic(b_):
            return pyop(_np.asarray(a, dtype=object), b_)
        return getattr(_np, name)(a, b_)

    def not_equal(self, a, b_):
        return self._cmp(a, b_, 'not_equal', lambda x, y: x != y)

    def equal(self, a, b_):
        return self._cmp(a, b_, 'equal', lambda x, y: x == y)

    def less(self, a, b_):
        return self._cmp(a, b_, 'less', lambda x, y: x < y)

    def greater(self, a, b_):
        return self._cmp(a, b_, 'greater', lambda x, y: x > y)

    def _extreme(self, x, axis, keepdims, name, fnum):
        if not isinstance(x, T):
            return fnum(x, axis=axis, keepdims=keepdims)
        axes = list(range(x.ndim)) if axis is None else ([a_ % x.ndim for a_ in axis] if isinstance(axis, (tuple, list)) else [int(axis) % x.ndim])
        outshape = tuple((Integer(1) if k_ in axes else d_) for k_, d_ in enumerate(x._shape)) if keepdims else tuple(
            d_ for k_, d_ in enumerate(x._shape) if k_ not in axes)
        # opaque: an unspecified finite real function of the remaining indices (no property of it is assumed)
        bound = tuple(sp.Symbol('_x%d' % k_, integer=True) for k_ in range(x.ndim))
        body = x.fn(bound)
        key = name + '|' + sp.srepr(body) + '|' + str(axes)
        f = EXTREME.setdefault(key, sp.Function('%s%d' % (name.upper(), len(EXTREME)), real=True))
        EXTREME_DEFS[f.__name__] = (name, bound, body, axes, x._shape)

        def fn(idx):
            it = iter(idx)
            rest = []
            for k_ in range(x.ndim):
                if k_ in axes:
                    if keepdims:
                        next(it)
                else:
                    rest.append(next(it))
            return f(*rest) if rest else f(Integer(0))
        if not outshape:
            return mk(fn(()))
        return T(outshape, fn)

    def max(self, x, axis=None, keepdims=False, **kw):
        return self._extreme(x, axis, keepdims, 'max', _np.max)

    def min(self, x, axis=None, keepdims=False, **kw):
        return self._extreme(x, axis, keepdims, 'min', _np.min)

    amax = max
    amin = min

    def squeeze(self, x, axis=None):
        if not isinstance(x, T):
            return _np.squeeze(x, axis=axis)
        axes = [k_ for k_, d_ in enumerate(x._shape) if d_ == 1] if axis is None else ([a_ % x.ndim for a_ in axis] if isinstance(axis, (tuple, list)) else [int(axis) % x.ndim])
        for a_ in axes:
            if x._shape[a_] != 1:
                raise ValueError('cannot select an axis to squeeze out which has size not equal to one')
        key = tuple(0 if k_ in axes else slice(None) for k_ in range(x.ndim))
        return x[key]

    @property
    def ma(self):
        return _MA

    # -- reductions
    def sum(self, x, axis=None, keepdims=False, **kw):
        if isinstance(x, (list, tuple)) and any(isinstance(y, (T, S)) for y in x):
            r = 0
            for y in x:
                r = r + y
            return r
        if not isinstance(x, T):
            return _np.sum(x, axis=axis, keepdims=keepdims, **kw)
        if axis is None:
            axes = list(range(x.ndim))
        elif isinstance(axis, (tuple, list)):
            axes = [a % x.ndim for a in axis]
        else:
            axes = [int(axis) % x.ndim]
        rest = tuple(d for k, d in enumerate(x._shape) if k not in axes)
        outshape = tuple((Integer(1) if k in axes else d) for k, d in enumerate(x._shape)) if keepdims else rest

        def f(idx):
            it = iter(idx)
            full = []
            bound = []
            for k, d in enumerate(x._shape):
                if k in axes:
                    if keepdims:
                        next(it)
                    j = fidx('s')
                    full.append(j)
                    bound.append((j, d))
                else:
                    full.append(next(it))
            e = x.fn(tuple(full))
            e = apply_mask(e, [j for j, d in bound])
            for j, d in bound:
                e = mksum(e, j, d)
            return e
        if not outshape:
            return mk(f(()))
        return T(outshape, f)

    def mean(self, x, axis=None, keepdims=False, **kw):
        if not isinstance(x, T):
            return _np.mean(x, axis=axis, keepdims=keepdims, **kw)
        s = self.sum(x, axis=axis, keepdims=keepdims)
        return s / self._count(x, axis)

    def _count(self, x, axis):
        if axis is None:
            return x.size
        axes = axis if isinstance(axis, (tuple, list)) else [axis]
        r = Integer(1)
        for a in axes:
            r = r * x._shape[a % x.ndim]
        return S(r)

    def var(self, x, axis=None, ddof=0, keepdims=False, **kw):
        if not isinstance(x, T):
            return _np.var(x, axis=axis, ddof=ddof, keepdims=keepdims, **kw)
        m = self.mean(x, axis=axis, keepdims=True)
        d = (x - m) ** 2
        return self.sum(d, axis=axis, keepdims=keepdims) / (self._count(x, axis) - ddof)

    def std(self, x, axis=None, ddof=0, keepdims=False, **kw):
        if not isinstance(x, T):
            return _np.std(x, axis=axis, ddof=ddof, keepdims=keepdims, **kw)
        return self.sqrt(self.var(x, axis=axis, ddof=ddof, keepdims=keepdims))

    def any(self, x, axis=None, **kw):
        if isinstance(x, T):
            if axis is not None:
                raise Unsupported('np.any with axis on symbolic tensor')
            return exists(x)
        if isinstance(x, B):
            return bool(x)
        if isinstance(x, _np.ndarray) and x.dtype == object:
            if axis is not None:
                raise Unsupported('np.any(axis) on object array')
            e = sp.Or(*[w(v) for v in x.ravel()])
            return bool(mk(e)) if not isinstance(mk(e), bool) else mk(e)
        return _np.any(x, axis=axis, **kw)

    def all(self, x, axis=None, **kw):
        if isinstance(x, T):
            return not exists(~x)
        if isinstance(x, B):
            return bool(x)
        if isinstance(x, _np.ndarray) and x.dtype == object:
            e = sp.And(*[w(v) for v in x.ravel()])
            r = mk(e)
            return r if isinstance(r, bool) else bool(r)
        return _np.all(x, axis=axis, **kw)

    # -- shape manipulation
    def expand_dims(self, x, axis):
        if not isinstance(x, T):
            return _np.expand_dims(x, axis)
        axis = axis % (x.ndim + 1)
        key = (slice(None),) * axis + (None,)
        return x[key]

    def reshape(self, x, shape, **kw):
        if isinstance(x, T):
            return x.reshape(shape)
        return _np.reshape(x, shape, **kw)

    def transpose(self, x, axes=None):
        if not isinstance(x, T):
            return _np.transpose(x, axes)
        if axes is None:
            axes = tuple(reversed(range(x.ndim)))
        shp = tuple(x._shape[a] for a in axes)

        def fn(idx):
            ii = [None] * x.ndim
            for k, a in enumerate(axes):
                ii[a] = idx[k]
            return x.fn(tuple(ii))
        return T(shp, fn, x.boolean)

    def swapaxes(self, x, a, b):
        if not isinstance(x, T):
            return _np.swapaxes(x, a, b)
        axes = list(range(x.ndim))
        axes[a], axes[b] = axes[b], axes[a]
        return self.transpose(x, axes)

    def broadcast_to(self, x, shape, **kw):
        if not isinstance(x, T) and not _sym_shape(_shape_arg(shape)):
            return _np.broadcast_to(x, _cshape(_shape_arg(shape)), **kw)
        x = T.lift(x)
        shape = tuple(simp_int(w(d)) for d in _shape_arg(shape))
        sh = T.bshape(x._shape, shape)
        mk_ = x.bmask(shape)
        return T(shape, lambda idx: x.at(idx, shape, mk_), x.boolean)

    def concatenate(self, parts, axis=0, **kw):
        parts = list(parts)
        if not any(isinstance(p, T) for p in parts):
            return _np.concatenate(parts, axis=axis, **kw)
        parts = [T.lift(p) for p in parts]
        nd = parts[0].ndim
        axis = axis % nd
        lens = [p._shape[axis] for p in parts]
        tot = simp_int(sum(lens))
        shp = parts[0]._shape[:axis] + (tot,) + parts[0]._shape[axis + 1:]

        def f(idx):
            i = idx[axis]
            pieces = []
            off = Integer(0)
            for p, l in zip(parts, lens):
                sub = idx[:axis] + (i - off,) + idx[axis + 1:]
                cond = sp.And(i >= off, i < off + l) if off != 0 else (i < l)
                pieces.append((p, sub, cond))
                off = off + l
            # resolve eagerly when index is decidable
            out = []
            for p, sub, cond in pieces:
                cond = sp.sympify(cond)
                if cond is sp.false:
                    continue
                out.append((p.fn(sub), cond))
                if cond is sp.true:
                    break
            return sp.Piecewise(*out) if out else Integer(0)
        return T(shp, f)

    def hstack(self, parts, **kw):
        parts = list(parts)
        if not any(isinstance(p, T) for p in parts):
            return _np.hstack(parts, **kw)
        parts = [T.lift(p) for p in parts]
        parts = [p.reshape(1) if p.ndim == 0 else p for p in parts]
        return self.concatenate(parts, axis=0 if parts[0].ndim == 1 else 1)

    def vstack(self, parts, **kw):
        parts = list(parts)
        if not any(isinstance(p, T) for p in parts):
            return _np.vstack(parts, **kw)
        parts = [T.lift(p) for p in parts]
        parts = [p[None, :] if p.ndim == 1 else p for p in parts]
        return self.concatenate(parts, axis=0)

    def stack(self, parts, axis=0, **kw):
        parts = list(parts)
        if not any(isinstance(p, T) for p in parts):
            return _np.stack(parts, axis=axis, **kw)
        parts = [self.expand_dims(T.lift(p), axis) for p in parts]
        return self.concatenate(parts, axis=axis)

    def tile(self, x, reps):
        if not isinstance(x, T) and not (isinstance(reps, S) or (isinstance(reps, (tuple, list)) and _sym_shape(reps))):
            return _np.tile(x, reps)
        raise Unsupported('np.tile symbolic')

    def repeat(self, x, repeats, axis=None):
        if not isinstance(x, T) and not isinstance(repeats, S):
            return _np.repeat(x, repeats, axis=axis)
        raise Unsupported('np.repeat symbolic')

    def diagonal(self, x, axis1=0, axis2=1, **kw):
        if not isinstance(x, T):
            return _np.diagonal(x, axis1=axis1, axis2=axis2, **kw)
        raise Unsupported('np.diagonal symbolic')

    def where(self, *a, **kw):
        if any(isinstance(x, T) for x in a):
            raise Unsupported('np.where symbolic')
        return _np.where(*a, **kw)

    def shape(self, x):
        if isinstance(x, T):
            return tuple(S(d) for d in x._shape)
        return _np.shape(x)

    def ndim(self, x):
        return x.ndim if isinstance(x, T) else _np.ndim(x)

    def prod(self, x, **kw):
        if isinstance(x, (tuple, list)) and any(isinstance(y, S) for y in x):
            r = 1
            for y in x:
                r = r * y
            return r
        return _np.prod(x, **kw)


EXTREME = {}
EXTREME_DEFS = {}


class _MAShim(object):
    """numpy.ma inside traced code: missing values are modelled by the MASKED weight registry"""

    def is_masked(self, x):
        if isinstance(x, (S, T)) or _symbolic(x):
            return False      # precondition of the filter contracts: at least one non-missing value per cell
        return _np.ma.is_masked(x)

    def array(self, x, mask=None, **kw):
        if isinstance(x, T):
            return x
        return _np.ma.array(x, mask=mask, **kw)

    def __getattr__(self, name):
        return getattr(_np.ma, name)


_MA = _MAShim()
NPX = _NPX()


GENERIC = {}     # generic loop index symbol -> number of iterations (see loader.symrange: a comprehension over a symbolic
                 # range is executed once for a generic index; np.array of its one-element result is the whole sequence)


class Filtered(object):
    """the sub-sequence of a 1-D tensor selected by a boolean mask tensor (x[mask]); consumed by the pandas row collector"""

    def __init__(self, base, mask):
        self.base = base
        self.mask = mask


MASKED = {}      # label of an IndexedBase holding observations with missing values -> IndexedBase of 0/1 weights
                 # (numpy.ma semantics: an elementwise result is masked iff an operand is; reductions skip masked entries)


def apply_mask(e, js):
    """multiply by the 0/1 weight of every missing-value-carrying entry that is reduced over by this sum (once per entry)"""
    if not MASKED:
        return e
    seen = set()
    free = e.free_symbols
    for a_ in e.atoms(sp.Indexed):
        lab = str(a_.base.label)
        isyms = set().union(*[i_.free_symbols for i_ in a_.indices]) if a_.indices else set()
        if lab in MASKED and (isyms & set(js)) and isyms <= free and a_.indices not in seen:
            seen.add(a_.indices)
            e = e * MASKED[lab][a_.indices]
    return e


def mksum(e, j, d):
    """Sum_{j=0}^{d-1} e   (unrolled for concrete small d)"""
    d = sp.sympify(d)
    if d.is_Integer:
        if int(d) <= 12:
            return sum((e.xreplace({j: Integer(k)}) for k in range(int(d))), Integer(0))
    if j not in e.free_symbols:
        return e * d
    return sp.Sum(e, (j, 0, d - 1))


def exists(bt):
    """np.any over a boolean tensor -> python bool via the path oracle.  The atom is an
    opaque boolean keyed by the canonical body; contracts relate it to quantified facts."""
    idx = tuple(sp.Symbol('_q%d' % k, integer=True) for k in range(bt.ndim))
    body = bt.fn(idx)
    if body is sp.false:
        return False
    if body is sp.true:
        # non-empty tensor assumed (all dims >= 1 is a contract precondition)
        return True
    if not any(i in body.free_symbols for i in idx):
        return bool(mk(body))
    return decide(sym.exatom(idx, body, bt._shape))


def forall_fact(bt_body_lambda):
    pass
