"""Numeric evaluation of sympy terms (with Sum, Indexed, opaque Lg/Ex/Erf, Piecewise)
at a concrete instance.  Independent of numpy broadcasting: plain Python loops."""
import math
import sympy as sp
from .sym import Lg, Ex, Erf, EXATOMS


class EvalError(Exception):
    pass


def _extreme_defs():
    from . import tensor
    return tensor.EXTREME_DEFS


def ev(e, env, b=None):
    """env: {Symbol or str: number | array | callable}; b: bound index values"""
    b = b or {}
    e = sp.sympify(e)
    if e.is_Symbol:
        if e in b:
            return b[e]
        if e in env:
            return env[e]
        if str(e) in env:
            return env[str(e)]
        if str(e) in EXATOMS:
            idx, body, shape, _ = EXATOMS[str(e)]
            return _exists(idx, body, shape, env, b)
        raise EvalError('no value for symbol %s' % e)
    if e.is_Integer:
        return int(e)
    if e.is_Rational:
        return e.p / e.q
    if e.is_Float:
        return float(e)
    if e is sp.pi:
        return math.pi
    if e is sp.E:
        return math.e
    if e is sp.oo:
        return math.inf
    if e is -sp.oo:
        return -math.inf
    if e is sp.true:
        return True
    if e is sp.false:
        return False
    if e.is_Add:
        return sum(ev(a, env, b) for a in e.args)
    if e.is_Mul:
        r = 1
        for a in e.args:
            r = r * ev(a, env, b)
        return r
    if e.is_Pow:
        base = ev(e.base, env, b)
        ex = ev(e.exp, env, b)
        if isinstance(ex, int) and ex < 0 and isinstance(base, int):
            return float(base) ** ex
        return base ** ex
    if isinstance(e, sp.Indexed):
        nm = str(e.base.label)
        arr = env.get(nm, env.get(e.base.label))
        if arr is None:
            raise EvalError('no array for %s' % nm)
        idx = tuple(int(ev(i, env, b)) for i in e.indices)
        if callable(arr):
            return arr(*idx)
        for i, d in zip(idx, arr.shape):
            if not (0 <= i < d):
                raise EvalError('index %s out of range for %s%s' % (idx, nm, arr.shape))
        return float(arr[idx])
    if isinstance(e, sp.Sum):
        (ix, lo, hi) = e.limits[0]
        lo_v = int(ev(lo, env, b))
        hi_v = int(ev(hi, env, b))
        inner = e.function if len(e.limits) == 1 else sp.Sum(e.function, *e.limits[1:])
        # sympy stores the innermost limit first
        if len(e.limits) > 1:
            (ix, lo, hi) = e.limits[-1]
            lo_v = int(ev(lo, env, b))
            hi_v = int(ev(hi, env, b))
            inner = sp.Sum(e.function, *e.limits[:-1])
        tot = 0
        b2 = dict(b)
        for k in range(lo_v, hi_v + 1):
            b2[ix] = k
            tot = tot + ev(inner, env, b2)
        return tot
    if isinstance(e, Lg):
        a = ev(e.args[0], env, b)
        if a <= 0:
            raise EvalError('log of non-positive %r' % a)
        return math.log(a)
    if isinstance(e, Ex):
        return math.exp(ev(e.args[0], env, b))
    if isinstance(e, Erf):
        return math.erf(ev(e.args[0], env, b))
    if isinstance(e, sp.Piecewise):
        for v, c in e.args:
            if ev(c, env, b):
                return ev(v, env, b)
        raise EvalError('no Piecewise branch applies')
    if isinstance(e, sp.KroneckerDelta):
        return 1 if ev(e.args[0], env, b) == ev(e.args[1], env, b) else 0
    if isinstance(e, (sp.Le, sp.Lt, sp.Ge, sp.Gt, sp.Eq, sp.Ne)):
        l, r = ev(e.lhs, env, b), ev(e.rhs, env, b)
        return {sp.Le: l <= r, sp.Lt: l < r, sp.Ge: l >= r, sp.Gt: l > r, sp.Eq: l == r, sp.Ne: l != r}[type(e)]
    if isinstance(e, sp.And):
        return all(ev(a, env, b) for a in e.args)
    if isinstance(e, sp.Or):
        return any(ev(a, env, b) for a in e.args)
    if isinstance(e, sp.Not):
        return not ev(e.args[0], env, b)
    if isinstance(e, sp.floor):
        return math.floor(ev(e.args[0], env, b))
    if isinstance(e, sp.Mod):
        return ev(e.args[0], env, b) % ev(e.args[1], env, b)
    if isinstance(e, sp.Abs):
        return abs(ev(e.args[0], env, b))
    if isinstance(e, sp.Max):
        return max(ev(a, env, b) for a in e.args)
    if isinstance(e, sp.Min):
        return min(ev(a, env, b) for a in e.args)
    if isinstance(e, sp.exp):
        return math.exp(ev(e.args[0], env, b))
    if isinstance(e, sp.log):
        return math.log(ev(e.args[0], env, b))
    if isinstance(e, sp.Function) and type(e).__name__ in _extreme_defs():
        import itertools
        name, bound, body, axes, shape = _extreme_defs()[type(e).__name__]
        rest = [ev(a, env, b) for a in e.args]
        dims = [int(ev(d_, env, b)) for d_ in shape]
        b2 = dict(b)
        it = iter(rest)
        for k_, sy in enumerate(bound):
            if k_ not in axes:
                b2[sy] = next(it)
        vals = []
        for cell in itertools.product(*[range(dims[k_]) for k_ in axes]):
            for k_, c_ in zip(axes, cell):
                b2[bound[k_]] = c_
            try:
                vals.append(ev(body, env, b2))
            except EvalError:
                pass
        return (max if name == 'max' else min)(vals)
    if isinstance(e, sp.Function):
        nm = type(e).__name__
        f = env.get(nm)
        if f is None:
            raise EvalError('no function %s' % nm)
        return f(*[ev(a, env, b) for a in e.args])
    raise EvalError('cannot evaluate %s' % type(e))


def _exists(idx, body, shape, env, b):
    import itertools
    dims = [int(ev(d, env, b)) for d in shape]
    for cell in itertools.product(*[range(d) for d in dims]):
        b2 = dict(b)
        b2.update(dict(zip(idx, cell)))
        if ev(body, env, b2):
            return True
    return False


def close(a, b, rtol=1e-7, atol=1e-9):
    if isinstance(a, bool) or isinstance(b, bool):
        return bool(a) == bool(b)
    if math.isinf(a) or math.isinf(b):
        return a == b
    if math.isnan(a) or math.isnan(b):
        return False
    return abs(a - b) <= atol + rtol * max(abs(a), abs(b))
