"""Mechanical extraction of the real chi source (every run).

`load_shadow()` imports /repo/chi/*.py from the current working tree as a
shadow package `chi_sym`: the same source text, compiled unchanged by CPython,
with the module-level names `np`, `len`, `int`, `float`, ... re-bound *after*
import to dispatching shims.  Nothing is transcribed by hand.  The complete list
of what differs from the installed chi is `REBOUND` below.
"""
import builtins
import hashlib
import importlib
import importlib.util
import os
import sys
import numpy as _np
from . import sym, tensor, seq
from .sym import S, B, w

REPO = os.environ.get('CHI_REPO', '/repo')
SHADOW = 'chi_sym'

# ---- shadowed builtins ------------------------------------------------------


def symlen(x):
    if isinstance(x, tensor.T):
        if not x.shape:
            raise TypeError('len() of unsized object')
        return S(x._shape[0])
    if isinstance(x, seq.Seq):
        return S(x.n)
    return builtins.len(x)


def symint(x, *a):
    if isinstance(x, S):
        import sympy as sp
        if x.e.is_integer or isinstance(x.e, (sp.floor, sp.ceiling)):
            return x
        raise sym.Unsupported('int() of non-integer symbolic value')
    return builtins.int(x, *a)


def symfloat(x=0.0):
    if isinstance(x, S):
        return x
    if isinstance(x, _np.ndarray) and x.dtype == object and x.ndim == 0:
        return x.item()
    return builtins.float(x)


def symabs(x):
    if isinstance(x, S):
        return x.__abs__()
    return builtins.abs(x)


class SymRange(object):
    """range(n) with symbolic n: iterating yields ONE generic index g (0 <= g < n is added to the path condition); the loop or
    comprehension body is thus executed once for an arbitrary iteration.  Only sound for bodies that treat iterations
    independently (comprehensions building a sequence element-wise); np.array of the one-element result is the sequence."""

    def __init__(self, n):
        self.n = n

    def __iter__(self):
        import sympy as sp
        g = sym.fidx('g')
        tensor.GENERIC[g] = self.n
        sym.assume(sp.And(g >= 0, g < self.n))
        yield S(g)

    def __len__(self):
        raise sym.Unsupported('len() of a symbolic range')


def symrange(*a):
    if len(a) == 1 and isinstance(a[0], S) and not a[0].e.is_Integer:
        if sym.decide(a[0].e <= 0):
            return builtins.range(0)
        return SymRange(a[0].e)
    if any(isinstance(x, S) and not x.e.is_Integer for x in a):
        raise sym.Unsupported('range() over a symbolic bound')
    return builtins.range(*[builtins.int(w(x)) if isinstance(x, S) else x for x in a])


def symisinstance(obj, cls):
    """isinstance that lets symbolic scalars pass the numeric type checks chi performs"""
    # the names int / float are re-bound to shims in the shadow modules: map them back to the real types
    back = {symint: builtins.int, symfloat: builtins.float}
    if isinstance(cls, tuple):
        cls = tuple(back.get(c, c) for c in cls)
    else:
        cls = back.get(cls, cls)
    if isinstance(obj, S):
        cl = cls if isinstance(cls, tuple) else (cls,)
        if getattr(obj, 'npint', False):
            # a numpy integer scalar (e.g. the result of Generator.integers): numpy.integer / numbers.Integral, but not int
            import numbers
            return any(c in (_np.integer, _np.int64, _np.signedinteger, _np.number, _np.generic, numbers.Integral, numbers.Number, S) for c in cl)
        if obj.e.is_integer and any(c in (int, _np.integer) for c in cl):
            return True
        if any(c in (float, _np.floating) for c in cl):
            return True
        if any(c is S for c in cl):
            return True
        return False
    return builtins.isinstance(obj, cls)


BUILTIN_SHIMS = {'len': symlen, 'int': symint, 'float': symfloat, 'abs': symabs, 'range': symrange,
                 'isinstance': symisinstance}

REBOUND = ['np -> pvc.tensor.NPX (dispatching shim: symbolic model for pvc tensors / object arrays, real numpy otherwise)',
           'len, int, float, abs, range, isinstance -> versions accepting symbolic scalars/tensors (real builtin otherwise)',
           'chi -> the shadow package itself', 'norm, truncnorm, erf, math -> symbolic shims (population models)']


class _MathShim(object):
    def __getattr__(self, name):
        import math
        return getattr(math, name)

    def erf(self, x):
        if isinstance(x, S):
            return sym.mk(sym.Erf(x.e))
        import math
        return math.erf(x)

    def sqrt(self, x):
        if isinstance(x, S):
            return x.sqrt()
        import math
        if sym.CTX is not None and isinstance(x, (int, float)):
            import sympy as sp
            r = sp.sqrt(w(x))
            if not r.is_Rational:
                return S(r)
        return math.sqrt(x)

    def log(self, x):
        if isinstance(x, S):
            return x.log()
        import math
        return math.log(x)

    def exp(self, x):
        if isinstance(x, S):
            return x.exp()
        import math
        return math.exp(x)


def shim_erf(x):
    from scipy.special import erf as real_erf
    return tensor._ew(x, sym.Erf, real_erf)


_loaded = {}


def source_digest():
    h = hashlib.sha256()
    base = os.path.join(REPO, 'chi')
    for fn in sorted(os.listdir(base)):
        if fn.endswith('.py'):
            h.update(open(os.path.join(base, fn), 'rb').read())
    return h.hexdigest()[:16]


def load_shadow(extra=None):
    """import /repo/chi as package chi_sym and install the shims"""
    if SHADOW in _loaded:
        return _loaded[SHADOW]
    init = os.path.join(REPO, 'chi', '__init__.py')
    spec = importlib.util.spec_from_file_location(SHADOW, init, submodule_search_locations=[os.path.join(REPO, 'chi')])
    pkg = importlib.util.module_from_spec(spec)
    saved = sys.modules.get('chi')
    sys.modules[SHADOW] = pkg
    sys.modules['chi'] = pkg           # `import chi` inside the shadow modules binds the shadow package
    try:
        spec.loader.exec_module(pkg)
    finally:
        if saved is not None:
            sys.modules['chi'] = saved
        else:
            del sys.modules['chi']
    for name, mod in list(sys.modules.items()):
        if name.startswith(SHADOW + '.') and mod is not None:
            d = mod.__dict__
            if 'np' in d:
                d['np'] = tensor.NPX
            if 'math' in d:
                d['math'] = _MathShim()
            if 'erf' in d:
                d['erf'] = shim_erf
            if 'truncnorm' in d:
                from . import ghost
                d['truncnorm'] = ghost.TruncnormShim()
                d['norm'] = ghost.NormShim()
            for k, v in BUILTIN_SHIMS.items():
                d[k] = v
            if 'myokit' in d or 'sbml' in d:
                from . import ghostsim
                ghostsim.install(mod)
            if extra:
                d.update(extra)
    _loaded[SHADOW] = pkg
    return pkg


def shadow_module(name):
    load_shadow()
    return sys.modules[SHADOW + '.' + name]
