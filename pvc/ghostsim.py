"""Ghost ODE solver: stands for myokit.Simulation inside shadow chi modules.

Assumed contract (A) of the external solver, which this object *is* the statement of:
  a Simulation holds (model, protocol, sensitivity request, state vector in model.states() order, constants, current time,
  state sensitivities);
  run(duration, log, log_times) returns, for the model / protocol / state / constants it currently holds, the solution of
  the initial-value problem started at the held time, at the log_times inside [time, time + duration), for the logged
  variables, and -- if a sensitivity request (outputs, parameters) was given at construction -- the array
  [time][output][parameter] of partial derivatives *provided the held state sensitivities are the default ones*; afterwards
  it holds the final state, the final state sensitivities and time + duration;
  reset() restores time 0, the default state and the default state sensitivities; set_time / set_state change only the
  time / the state  (myokit/_sim/cvodessim.py: reset, run, _run).
The ghost records every call, so contracts can state what the solver holds after any sequence of chi calls, and returns
opaque symbolic solutions tagged with the identity of the solver state they were computed from.
"""
import itertools
import myokit as _myokit
import numpy as _np
import sympy as sp
from .sym import S, w

_ids = itertools.count()
LOG = []          # global event log (constructions, runs) for frame / purity obligations


class GhostSimulation(object):
    def __init__(self, model, protocol=None, sensitivities=None, path=None):
        self.uid = next(_ids)
        self._model = model            # chi reads sim._model in set_outputs
        self.model = model
        self.protocol = protocol
        self.sensitivities = None
        if sensitivities is not None:
            outs, pars = sensitivities
            self.sensitivities = (list(outs), [str(p) for p in pars])
        self.state_names = [v.qname() for v in model.states()]
        self.state = None
        self.time = sp.Integer(0)
        self.s_state = 'default'
        self.constants = {}
        self.calls = []
        LOG.append(('new', self.uid, None if protocol is None else id(protocol), self.sensitivities))

    def reset(self):
        self.state = None
        self.time = sp.Integer(0)
        self.s_state = 'default'
        self.calls.append(('reset',))

    def set_state(self, state):
        state = list(state)
        if len(state) != len(self.state_names):
            raise ValueError('Simulation.set_state: expected %d values' % len(self.state_names))
        self.state = [w(x) for x in state]
        self.calls.append(('set_state', list(self.state)))

    def set_constant(self, var, value):
        if isinstance(var, _myokit.Variable):
            var = var.qname()
        v = self.model.get(var)          # KeyError like myokit for unknown names
        if not v.is_literal():
            raise ValueError('Simulation.set_constant: %s is not a literal constant' % var)
        self.constants[str(var)] = w(value)
        self.calls.append(('set_constant', str(var), w(value)))

    def set_protocol(self, protocol):
        self.protocol = protocol
        self.calls.append(('set_protocol', None if protocol is None else id(protocol)))

    def set_time(self, t=0):
        self.time = sp.nsimplify(w(t)) if not isinstance(t, S) else w(t)
        self.calls.append(('set_time', self.time))

    def set_tolerance(self, *a, **k):
        pass

    def snapshot(self):
        """what the solver holds (the arguments of the assumed IVP contract)"""
        return {'model': self.model.code(), 'protocol': protocol_events(self.protocol), 'sensitivities': self.sensitivities,
                'state': None if self.state is None else dict(zip(self.state_names, self.state)), 'constants': dict(self.constants),
                'time': self.time, 's_state': self.s_state if self.sensitivities is not None else None}

    def run(self, duration, log=None, log_times=None):
        log = list(log)
        times = [w(t) for t in log_times]
        tag = len(RUNS)
        RUNS.append({'sim': self.uid, 'snapshot': self.snapshot(), 'log': log, 'times': times, 'duration': w(duration)})
        LOG.append(('run', self.uid, tag))
        for name in log:
            self.model.get(name)         # KeyError like myokit
        t0, dur = self.time, sp.sympify(w(duration))
        if t0.is_number and dur.is_number:
            if dur < 0:
                raise ValueError("Simulation time can't be negative.")
            # only log times inside [time, time + duration) are logged
            times = [t for t in times if not (sp.sympify(t).is_number and not (t0 <= sp.sympify(t) < t0 + dur))]
        self.time = t0 + dur
        end = sp.Function('END', real=True)
        self.state = [end(sp.Symbol('run%d' % tag), sp.Symbol(nm.replace('.', '__'))) for nm in self.state_names]
        if self.sensitivities is not None:
            self.s_state = 'end of run%d' % tag
        out = {}
        for name in log:
            f = sp.Function('SOL', real=True)
            out[name] = [S(f(sp.Symbol('run%d' % tag), sp.Symbol(name.replace('.', '__')), t)) for t in times]
        if self.sensitivities is None:
            return out
        outs, pars = self.sensitivities
        g = sp.Function('DSOL', real=True)
        sens = [[[S(g(sp.Symbol('run%d' % tag), sp.Symbol(o.replace('.', '__')), sp.Symbol(p.replace('.', '__').replace('(', '_').replace(')', '_')), t))
                  for p in pars] for o in outs] for t in times]
        return out, sens


RUNS = []


def protocol_events(protocol):
    if protocol is None:
        return None
    return [tuple(w(x) for x in (e.level(), e.start(), e.duration(), e.period(), e.multiplier())) for e in protocol.events()]


class GhostProtocol(_myokit.Protocol):
    """a pacing protocol whose single event has symbolic fields (assumed contract of myokit.pacing.blocktrain: one event
    (level, start=offset, duration, period, multiplier=limit))"""

    def __init__(self, level, start, duration, period, multiplier):
        _myokit.Protocol.__init__(self)
        self.ghost_event = GhostEvent(level, start, duration, period, multiplier)

    def events(self):
        return [self.ghost_event]

    def clone(self):
        e = self.ghost_event
        return GhostProtocol(e._level, e._start, e._duration, e._period, e._multiplier)


class GhostEvent(object):
    def __init__(self, level, start, duration, period, multiplier):
        self._level, self._start, self._duration, self._period, self._multiplier = level, start, duration, period, multiplier

    def level(self):
        return self._level

    def start(self):
        return self._start

    def duration(self):
        return self._duration

    def period(self):
        return self._period

    def multiplier(self):
        return self._multiplier


class _PacingShim(object):
    def blocktrain(self, period, duration, offset=0, level=1.0, limit=0):
        if any(isinstance(x, S) for x in (period, duration, offset, level, limit)):
            return GhostProtocol(level, offset, duration, period, limit)
        return _myokit.pacing.blocktrain(period, duration, offset=offset, level=level, limit=limit)

    def __getattr__(self, name):
        return getattr(_myokit.pacing, name)


class MyokitShim(object):
    """the myokit module with Simulation replaced by the ghost"""
    Simulation = GhostSimulation
    pacing = _PacingShim()

    def __getattr__(self, name):
        return getattr(_myokit, name)


class SbmlShim(object):
    """myokit.formats.sbml with an importer that also accepts an already built myokit.Model (generated test programs)"""

    class SBMLImporter(object):
        def model(self, path):
            if isinstance(path, _myokit.Model):
                return path.clone()
            import myokit.formats.sbml as real
            return real.SBMLImporter().model(path)

    def __getattr__(self, name):
        import myokit.formats.sbml as real
        return getattr(real, name)


def install(shadow_module):
    d = shadow_module.__dict__
    if 'myokit' in d:
        d['myokit'] = MyokitShim()
    if 'sbml' in d:
        d['sbml'] = SbmlShim()
