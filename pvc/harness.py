"""Obligation bookkeeping, discharge, native replay, evidence, exit codes.

Exit codes of bin/check: 0 = property held on everything explored (KNOWN-FINDING
lines allowed), 1 = VIOLATION (with replay file), 3 = checker fault.
An obligation that is neither discharged nor refuted with a natively replayed
witness is *undecided*: it never produces a VIOLATION.
"""
import fnmatch
import json
import math
import multiprocessing
import os
import random
import sys
import time
import traceback

import numpy as np
import sympy as sp

from . import sym, normal, evalx
from .sym import Unsupported, TooManyPaths

ROOT = os.path.dirname(os.path.dirname(os.path.abspath(__file__)))
OUT = os.environ.get('PVC_EVIDENCE_DIR') or ROOT     # scratch runs (canaries) write elsewhere


class CheckerFault(Exception):
    pass


def jsonable(x):
    if isinstance(x, dict):
        return {str(k): jsonable(v) for k, v in x.items()}
    if isinstance(x, (list, tuple)):
        return [jsonable(v) for v in x]
    if isinstance(x, np.ndarray):
        return jsonable(x.tolist())
    if isinstance(x, (np.integer,)):
        return int(x)
    if isinstance(x, (np.floating, float)):
        x = float(x)
        if math.isnan(x) or math.isinf(x):
            return repr(x)
        return x
    if isinstance(x, (int, str, bool)) or x is None:
        return x
    return str(x)[:500]


class Env(dict):
    """instance environment: keys are symbol names; lookups accept sympy symbols or strings"""

    def __init__(self, d=()):
        dict.__init__(self)
        for k, v in dict(d).items():
            dict.__setitem__(self, str(k), v)

    def __getitem__(self, k):
        return dict.__getitem__(self, str(k))

    def __setitem__(self, k, v):
        dict.__setitem__(self, str(k), v)

    def __contains__(self, k):
        return dict.__contains__(self, str(k))

    def get(self, k, default=None):
        return dict.get(self, str(k), default)


def name_match(name, pat):
    return name == pat or fnmatch.fnmatchcase(name, pat)


class Recorder(object):
    """collects obligation records inside one task"""

    def __init__(self, pid, tier, seed, only=None, replay_env=None):
        self.pid = pid
        self.tier = tier
        self.seed = seed
        self.only = only
        self.replay_env = replay_env
        self.obs = []
        self.bounded = []
        self.functions = set()
        self.assumptions = set()
        self.rng = random.Random(seed)
        self.nprng = np.random.default_rng(seed)

    # ---- knobs
    @property
    def n_conf(self):
        return 3 if self.tier == 'quick' else 12

    @property
    def n_refute(self):
        return 40 if self.tier == 'quick' else 200

    def want(self, name):
        return self.only is None or name_match(name, self.only)

    def record(self, name, funcs, klass, status, backend, t, detail='', witness=None, residual=None):
        for f in funcs:
            self.functions.add(f)
        self.obs.append({'name': name, 'functions': list(funcs), 'class': klass, 'status': status,
                         'backend': backend, 'solver_s': round(t, 3), 'detail': str(detail)[:1500],
                         'witness': witness, 'residual': residual})

    def assume(self, text):
        self.assumptions.add(text)

    # ---- generic obligation kinds -------------------------------------------------
    def run(self, name, funcs, klass, fn):
        """fn() -> (status, backend, detail[, witness[, residual]]); engine limits become 'undecided'"""
        if not self.want(name):
            return
        t = time.time()
        try:
            r = fn()
        except (Unsupported, TooManyPaths) as ex:
            r = ('undecided', 'engine', 'outside symbolic model: %s' % ex)
        except CheckerFault:
            raise
        except Exception as ex:
            r = ('undecided', 'engine', 'internal error while tracing: %s\n%s' % (ex, traceback.format_exc()[-800:]))
        r = tuple(r) + (None,) * (5 - len(r))
        self.record(name, funcs, klass, r[0], r[1], time.time() - t, r[2], r[3], r[4])

    def identity(self, name, funcs, klass, traced, spec, conds, instance, native, spec_env=None):
        """traced == spec as an identity under conds.
        instance(rng) -> env for numeric evaluation (satisfying conds); native(env) -> number computed by the
        installed chi.  Conformance: traced(env) ~ native(env).  On an open identity: search a natively
        replayed counterexample spec(env) != native(env)."""
        if not self.want(name):
            return

        native_raw = native

        class Mutated(Exception):
            pass

        def native(env):
            # the installed function is called on the instance's own arrays; writing into them is an observable effect (refuted),
            # and must not poison the instances that follow
            snap = {k_: v_.copy() for k_, v_ in env.items() if isinstance(v_, np.ndarray)}
            out = native_raw(env)
            changed = [k_ for k_, v_ in snap.items() if not np.array_equal(v_, env[k_], equal_nan=True)]
            if changed:
                for k_ in changed:
                    env[k_][...] = snap[k_]
                raise Mutated('the call writes into its argument array(s) %s' % changed)
            return out

        def go():
            if self.replay_env is not None:
                return self._replay_identity(spec, native_raw, self.replay_env)
            t0 = time.time()
            status, res, nz = normal.prove_equal(traced, spec, conds)
            # conformance of the engine model, always (instances must lie on the traced path)
            plain = [c for c in conds if not isinstance(c, sym.QFact)]
            done = 0
            for _ in range(self.n_conf * 25):
                if done >= self.n_conf:
                    break
                env = Env(instance(self.nprng))
                try:
                    if not all(evalx.ev(c, env) for c in plain):
                        continue
                except evalx.EvalError:
                    continue
                done += 1
                try:
                    vn = native(env)
                except Mutated as ex:
                    return ('refuted', 'native replay', '%s (float64 arrays passed by the caller are modified in place)' % ex, {'env': jsonable(env), 'expected': 'arguments unchanged', 'observed': str(ex)})
                except Exception as ex:
                    return ('refuted', 'native replay', 'native call raises %r where the contract promises a value' % (ex,),
                            {'env': jsonable(env), 'expected': 'a value', 'observed': repr(ex)})
                vt = evalx.ev(traced, env)
                if not evalx.close(vt, vn, 1e-6, 1e-8):
                    raise CheckerFault('conformance: traced result %r differs from native %r for %s (engine model '
                                       'does not match the real code on this function)' % (vt, vn, name))
            if status == 'proved':
                return ('discharged', 'sigma-normal-form + cancel; side conditions z3', 'identity closed; %d sum atoms' % len(nz.atoms))
            # not closed: look for a replayable counterexample
            tried = 0
            for _ in range(self.n_refute):
                env = Env(instance(self.nprng))
                try:
                    if not all(evalx.ev(c, env) for c in plain):
                        continue
                    vs = evalx.ev(spec, env)
                except evalx.EvalError as ex:
                    continue
                tried += 1
                try:
                    vn = native(env)
                except Mutated as ex:
                    return ('refuted', 'native replay', '%s (float64 arrays passed by the caller are modified in place)' % ex, {'env': jsonable(env), 'expected': 'arguments unchanged', 'observed': str(ex)})
                except Exception as ex:
                    return ('refuted', 'native replay', 'native call raises %r where the contract promises a value' % (ex,),
                            {'env': jsonable(env), 'expected': jsonable(vs), 'observed': repr(ex)})
                if not evalx.close(vs, vn, 1e-6, 1e-8):
                    return ('refuted', 'sigma-normal-form residual != 0; native replay', 'expected %r observed %r' % (vs, vn),
                            {'env': jsonable(env), 'expected': jsonable(vs), 'observed': jsonable(vn)}, str(res)[:400])
            return ('undecided', 'sigma-normal-form', 'identity not closed (residual %s); native agrees with the '
                    'specification on %d of %d sampled instances that satisfy the path condition' % (str(res)[:300], tried, self.n_refute), None, str(res)[:400])
        self.run(name, funcs, klass, go)

    def _replay_identity(self, spec, native, env):
        env = unjson_env(env)
        vs = evalx.ev(spec, env)
        vn = native(env)
        ok = evalx.close(vs, vn, 1e-6, 1e-8)
        print('REPLAY expected=%r observed=%r -> %s' % (vs, vn, 'agrees' if ok else 'VIOLATES'))
        return ('discharged' if ok else 'refuted', 'native replay', 'expected %r observed %r' % (vs, vn),
                None if ok else {'env': jsonable(env), 'expected': jsonable(vs), 'observed': jsonable(vn)})

    def fact(self, name, funcs, klass, conds, goal, witness_fn=None, backend='z3'):
        """conds |- goal decided by z3 (and cvc5 on unknown).  witness_fn(model) -> (violates?, witness dict) replays
        a solver model natively."""
        if not self.want(name):
            return

        def go():
            r = sym.z3_check(list(conds), goal, timeout_ms=10000 if self.tier == 'quick' else 60000)
            if r == 'unsat':
                return ('discharged', 'z3', 'entailed')
            if r == 'sat':
                m = sym.z3_model(list(conds) + [sp.Not(goal)])
                if witness_fn is not None and m is not None:
                    bad, wit = witness_fn(m)
                    if bad:
                        return ('refuted', 'z3 model; native replay', 'counter-model %s' % (m,), wit)
                return ('undecided', 'z3', 'counter-model %s not reproduced natively' % (m,))
            return ('undecided', 'z3', 'unknown')
        self.run(name, funcs, klass, go)

    def native_check(self, name, funcs, cases, fn, rule, exhaustive=False):
        """bounded run-time contract: fn(case) -> None | failure description (+witness).  Never counted as proved."""
        if not self.want(name):
            return
        t = time.time()
        n = 0
        distinct = set()
        samples = []
        fail = None
        for case in cases:
            n += 1
            try:
                r = fn(case)
            except CheckerFault:
                raise
            except (ValueError, IndexError, TypeError, KeyError, ZeroDivisionError, FloatingPointError, NameError) as ex:
                # every case is a valid use of the public interface that passes on the unchanged tree: an exception raised *inside the code under
                # check* (innermost non-library frame in the checked tree's chi package) is a failed run-time contract, not a fault of the checker;
                # an exception raised in the contract code itself stays a checker fault
                import traceback as _tb
                frames = [f_ for f_ in _tb.extract_tb(ex.__traceback__) if 'site-packages' not in f_.filename and '/lib/python' not in f_.filename]
                inner = frames[-1].filename if frames else ''
                root = os.path.abspath(os.environ.get('CHI_REPO', '/repo'))
                if not (os.path.abspath(inner).startswith(os.path.join(root, 'chi') + os.sep)):
                    raise
                r = 'the call raises %s: %s (in %s:%d %s) for a valid input that the unchanged code accepts' % (
                    type(ex).__name__, str(ex)[:200], os.path.relpath(inner, root), frames[-1].lineno, frames[-1].name)
            key = repr(jsonable(case))[:300]
            distinct.add(key)
            if len(samples) < 3:
                samples.append(jsonable(case))
            if r is not None:
                fail = (case, r)
                break
        self.bounded.append({'name': name, 'functions': list(funcs), 'evaluations': n, 'distinct_nontrivial': len(distinct),
                             'rule': rule, 'samples': samples, 'exhaustive': bool(exhaustive and fail is None),
                             'wall_s': round(time.time() - t, 3),
                             'failure': None if fail is None else {'case': jsonable(fail[0]), 'what': str(fail[1])[:800]}})
        for f in funcs:
            self.functions.add(f)


def unjson_env(env):
    out = Env()
    for k, v in env.items():
        if isinstance(v, list):
            out[k] = np.array(v, dtype=float)
        elif isinstance(v, str) and v in ('inf', '-inf', 'nan'):
            out[k] = float(v)
        else:
            out[k] = v
    return out


# ---------------------------------------------------------------------------
# known findings
# ---------------------------------------------------------------------------
def load_known():
    p = os.path.join(ROOT, 'known_findings.json')
    if not os.path.exists(p):
        return []
    return json.load(open(p)).get('findings', [])


def match_known(pid, ob, known):
    for k in known:
        if k.get('status') != 'known' or k.get('property') != pid:
            continue
        if not name_match(ob['name'], k['obligation']):
            continue
        sig = k.get('residual')
        if sig is not None and (ob.get('residual') or '') != sig:
            continue
        return k
    return None


# ---------------------------------------------------------------------------
# runner
# ---------------------------------------------------------------------------
def _run_task(args):
    (modname, taskname, pid, tier, seed, only, replay_env) = args
    import importlib
    t = time.time()
    mod = importlib.import_module(modname)
    rec = Recorder(pid, tier, seed, only, replay_env)
    fn = dict(mod.TASKS)[taskname]
    try:
        fn(rec)
        fault = None
    except CheckerFault as ex:
        fault = 'task %s: %s' % (taskname, ex)
    except (Unsupported, TooManyPaths) as ex:
        # the tree under check uses a construct outside the symbolic model before the obligations of this task could be stated:
        # undecided (never a violation, never a checker fault)
        rec.record('%s/engine' % taskname, [], 'Pκ', 'undecided', 'engine', time.time() - t, 'outside the symbolic model while setting up the task: %s' % ex)
        fault = None
    except AttributeError as ex:
        import re as _re
        if _re.search(r"has no attribute '_[A-Za-z]", str(ex)):
            # a contract reads a private field of a chi object (ghost-state / representation predicates) that the tree under check no
            # longer has: the representation changed, which is not a violation of a property; the obligations of this task are undecided
            rec.record('%s/representation' % taskname, [], 'Pκ', 'undecided', 'engine', time.time() - t, 'a private field read by the contract does not exist in this tree: %s' % ex)
            fault = None
        else:
            fault = 'task %s crashed: %s\n%s' % (taskname, ex, traceback.format_exc()[-1500:])
    except Exception as ex:
        fault = 'task %s crashed: %s\n%s' % (taskname, ex, traceback.format_exc()[-1500:])
    return {'task': taskname, 'obs': rec.obs, 'bounded': rec.bounded, 'functions': sorted(rec.functions),
            'assumptions': sorted(rec.assumptions), 'fault': fault, 'wall_s': time.time() - t,
            'z3': dict(sym.STATS)}


def run_check(pid, modname, tier='quick', seed=0, only=None, replay=None, jobs=None, meta=None):
    import importlib
    t0 = time.time()
    mod = importlib.import_module(modname)
    meta = meta or getattr(mod, 'META', {})
    replay_env = None
    if replay:
        rp = json.load(open(replay))
        only = rp['obligation']
        replay_env = rp.get('witness', {}).get('env')
        if replay_env is None:
            print('replay file carries no input (no-failing-input-found); verifier output follows')
            print(rp.get('detail', ''))
            return 0
    tasks = [(modname, name, pid, tier, seed, only, replay_env) for name, _ in mod.TASKS]
    jobs = jobs or min(16, len(tasks), os.cpu_count() or 1)
    if jobs > 1 and len(tasks) > 1:
        ctx = multiprocessing.get_context('fork')
        limit = int(os.environ.get('PVC_TASK_LIMIT_S', 900 if tier == 'quick' else 5400))
        pool = ctx.Pool(jobs)
        try:
            pending = [(t, pool.apply_async(_run_task, (t,))) for t in tasks]
            results = []
            t_end = time.time() + limit
            for t, p_ in pending:
                try:
                    results.append(p_.get(timeout=max(1.0, t_end - time.time())))
                except multiprocessing.TimeoutError:
                    # a task that does not finish is undecided, never a violation
                    results.append({'task': t[1], 'obs': [{'name': t[1] + '/task-time-limit', 'functions': [], 'class': '-', 'status': 'undecided',
                                                         'backend': 'engine', 'solver_s': float(limit), 'detail': 'task exceeded the time limit of %d s' % limit,
                                                         'witness': None, 'residual': None}],
                                    'bounded': [], 'functions': [], 'assumptions': [], 'fault': None, 'wall_s': float(limit), 'z3': {}})
        finally:
            pool.terminate()
            pool.join()
    else:
        results = [_run_task(t) for t in tasks]
    return finish(pid, tier, seed, results, meta, time.time() - t0, replay is not None, only)


def finish(pid, tier, seed, results, meta, wall, replaying, only):
    obs = [o for r in results for o in r['obs']]
    bounded = [b for r in results for b in r['bounded']]
    faults = [r['fault'] for r in results if r['fault']]
    functions = sorted({f for r in results for f in r['functions']})
    assumptions = sorted({a for r in results for a in r['assumptions']} | set(meta.get('assumptions', [])))
    known = load_known()
    violations = []
    known_seen = []
    os.makedirs(os.path.join(OUT, 'replays'), exist_ok=True)
    for o in obs:
        if o['status'] == 'refuted':
            k = match_known(pid, o, known)
            if k is not None:
                known_seen.append((k, o))
            else:
                violations.append(o)
    # obligations that cannot be decided *because* they lie inside a recorded finding (same call site) are carved out with it
    active = [k for k, _ in known_seen]
    carved = []
    for o in obs:
        if o['status'] == 'undecided':
            o2 = dict(o, status='refuted')
            k = match_known(pid, o2, known)
            if k is not None and k in active:
                carved.append(o)
    obs = [o for o in obs if o not in carved]
    for b in bounded:
        if b['failure'] is not None:
            o = {'name': b['name'], 'functions': b['functions'], 'class': 'B', 'status': 'refuted', 'backend': 'bounded run-time contract',
                 'detail': b['failure']['what'], 'witness': {'case': b['failure']['case']}, 'residual': None}
            k = match_known(pid, o, known)
            if k is not None:
                known_seen.append((k, o))
            else:
                violations.append(o)
    # class-B obligations are bounded run-time contracts: reported, decided (a refutation is a violation), but never counted as proved
    bobs = [o for o in obs if o['class'] == 'B']
    obs = [o for o in obs if o['class'] != 'B']
    for o in bobs:
        if o['status'] == 'discharged':
            import re
            mm = re.search(r'(\d+) (?:histories|cases|evaluations)', o['detail'])
            nn = int(mm.group(1)) if mm else 1
            bounded.append({'name': o['name'], 'functions': o['functions'], 'evaluations': nn, 'distinct_nontrivial': nn, 'rule': o['detail'][:300], 'samples': [o['detail'][:200]],
                            'exhaustive': False, 'wall_s': round(o['solver_s'], 3), 'failure': None})
    n_ob = len(obs)
    n_dis = sum(1 for o in obs if o['status'] == 'discharged')
    undecided = [o for o in obs if o['status'] == 'undecided'] + [o for o in bobs if o['status'] == 'undecided']
    seen_k = []
    for k, o in known_seen:
        if k in seen_k:
            continue
        seen_k.append(k)
        names = [o2['name'] for k2, o2 in known_seen if k2 is k]
        print('KNOWN-FINDING: property=%s %s [%d obligations: %s%s]' % (pid, k['what'][:400], len(names), ', '.join(names[:3]), ', ...' if len(names) > 3 else ''))
    rc = 0
    for o in violations:
        path = os.path.join('replays', '%s__%s.json' % (pid, o['name'].replace('/', '_').replace(' ', '_')[:120]))
        has_input = bool(o.get('witness'))
        json.dump({'property': pid, 'obligation': o['name'], 'functions': o['functions'], 'backend': o['backend'],
                   'detail': o['detail'], 'witness': o.get('witness'), 'residual': o.get('residual'),
                   'rerun': 'bin/check %s --replay %s' % (pid, path)}, open(os.path.join(OUT, path), 'w'), indent=1)
        print('VIOLATION property=%s replay=%s%s' % (pid, path, '' if has_input else ' no-failing-input-found'))
        print('  obligation %s (%s): %s' % (o['name'], ', '.join(o['functions'])[:200], o['detail'][:300]))
        rc = 1
    if faults:
        for f in faults:
            print('CHECKER-FAULT: %s' % f)
        if rc == 0:
            rc = 3
    if n_ob + len(bounded) == 0 and not replaying:
        print('CHECKER-FAULT: zero obligations generated for %s' % pid)
        rc = 3
    if replaying:
        return rc
    if only is not None:
        for o in obs:
            print('%-10s %-70s %s' % (o['status'], o['name'], o['detail'][:150]))
        return rc
    # ---- evidence
    level = meta.get('category', 'proof')
    proof_ok = (n_ob > 0 and n_dis == n_ob - len([1 for k, o in known_seen if o in obs]) and not undecided)
    if level == 'proof' and undecided:
        level = 'exploration'
    n_eval = sum(b['evaluations'] for b in bounded)
    n_dist = sum(b['distinct_nontrivial'] for b in bounded)
    samples = []
    for o in obs[:4]:
        samples.append({'obligation': o['name'], 'class': o['class'], 'status': o['status'], 'backend': o['backend'], 'detail': o['detail'][:200]})
    for b in bounded[:2]:
        samples.append({'bounded': b['name'], 'case': b['samples'][:1]})
    ksn = sum(1 for k, o in known_seen if o in obs)
    cov = {
        'obligations': n_ob - ksn, 'discharged': n_dis,
        'checker_cmd': 'bin/check %s --tier %s' % (pid, tier),
        'trusted_base': meta.get('trusted_base', []),
        'functions_under_contract': functions,
        'obligation_list': [{k: o[k] for k in ('name', 'class', 'status', 'backend', 'solver_s')} for o in obs],
        'undecided': [{'name': o['name'], 'why': o['detail'][:300]} for o in undecided],
        'bounds': meta.get('bounds', {}),
        'bounded': [{k: b[k] for k in ('name', 'evaluations', 'distinct_nontrivial', 'rule', 'exhaustive', 'wall_s')} for b in bounded],
        'evaluations': max(n_eval, n_ob), 'distinct_nontrivial': max(n_dist, len({o['name'] for o in obs})),
        'rule': 'proof part: one case per named obligation (distinct by name); bounded part: ' + '; '.join(sorted({b['rule'] for b in bounded}))[:600],
        'samples': samples,
        'known_findings_seen': [{'obligation': o['name'], 'what': k['what'][:200]} for k, o in known_seen],
        'carved_out_with_known_findings': [o['name'] for o in carved],
        'solver_time_s': round(sum(o['solver_s'] for o in obs), 2),
        'z3_calls': sum(r['z3'].get('z3_calls', 0) for r in results),
        'task_wall_s': {r['task']: round(r['wall_s'], 2) for r in results},
        'source_digest': meta.get('source_digest', ''),
    }
    ev = {'property_id': pid, 'tier': tier, 'seed': int(seed), 'level': level, 'coverage': cov,
          'assumptions': assumptions, 'wall_s': round(wall, 2), 'violations': len(violations)}
    os.makedirs(os.path.join(OUT, 'evidence'), exist_ok=True)
    json.dump(ev, open(os.path.join(OUT, 'evidence', '%s.json' % pid), 'w'), indent=1)
    print('%s tier=%s: %d obligations, %d discharged, %d undecided, %d known findings, %d bounded checks (%d evaluations), %d violations, %.1fs'
          % (pid, tier, n_ob, n_dis, len(undecided), len(known_seen), len(bounded), n_eval, len(violations), wall))
    for o in undecided:
        print('  undecided: %s: %s' % (o['name'], o['detail'][:200]))
    return rc
