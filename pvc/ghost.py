"""Ghost random generators: every draw is a symbolic atom carrying its provenance
(stream, call number within the stream, index of the entry), so that laws and
independence can be read off the traced result.

Assumed contracts (A) of the externals modelled here:
  numpy.random.default_rng(seed:int) -> a fresh generator whose stream is a function of seed only;
  numpy.random.default_rng(generator) -> the same generator object (not re-seeded);
  numpy.random.default_rng(None) -> a generator with fresh entropy;
  Generator.normal(loc, scale, size) -> loc + scale * Z, Z i.i.d. N(0,1), one per entry, advancing the stream;
  Generator.lognormal(mean, sigma, size) -> exp(mean + sigma * Z);
  Generator.choice(a, size, replace=True) -> i.i.d. uniform picks from a;
  Generator.integers(low, high) -> one uniform integer;
  numpy.random.seed(s) -> the *global* stream becomes a function of s only;
  scipy.stats.truncnorm.rvs(a, b, loc, scale, size) -> Normal(loc, scale) conditioned on
      [loc + a*scale, loc + b*scale]  (scipy's documented *standardised* bounds), drawn from the global stream.
"""
import itertools
import numpy as _np
import sympy as sp
from . import sym, tensor
from .sym import S, w, mk
from .tensor import T


class Z(sp.Function):
    """i.i.d. standard normal atom  Z(stream, call, *idx)"""
    is_real = True


class CH(sp.Function):
    """uniform choice atom  CH(stream, call, n_options, *idx)  in 0..n_options-1"""
    is_integer = True


class TN(sp.Function):
    """truncated-normal draw  TN(stream, call, loc, scale, lower, upper, *idx)"""
    is_real = True


class UI(sp.Function):
    """uniform integer draw UI(stream, call, low, high)"""
    is_integer = True


class Stream(sp.Function):
    """stream identity: Stream(seed) for default_rng(int seed)"""


GLOBAL0 = sp.Symbol('GLOBAL_PRESTATE')       # the global numpy stream in its unknown pre-call state
_fresh = itertools.count()


class GhostRNG(object):
    """stands for numpy.random.Generator"""

    def __init__(self, stream):
        self.stream = stream
        self.calls = 0
        self.log = []

    def _next(self, what):
        c = self.calls
        self.calls += 1
        self.log.append(what)
        return sp.Integer(c)

    def _bcast(self, x, shape):
        if isinstance(x, T):
            return x
        if isinstance(x, _np.ndarray):
            return T.lift(x)
        return None

    def _shape(self, size, *params):
        if size is None:
            shp = ()
            for p_ in params:
                if isinstance(p_, T):
                    shp = T.bshape(shp, p_._shape)
            return shp
        if isinstance(size, (tuple, list)):
            return tuple(w(s_) for s_ in size)
        return (w(size),)

    def _elem(self, x, idx, shape):
        if isinstance(x, T):
            return x.at(idx, shape)
        if isinstance(x, _np.ndarray):
            return T.lift(x).at(idx, shape)
        return w(x)

    def normal(self, loc=0.0, scale=1.0, size=None):
        c = self._next('normal')
        shape = self._shape(size, loc, scale)
        for p_ in (loc, scale):
            if isinstance(p_, (T, _np.ndarray)):
                T.bshape(shape, T.lift(p_)._shape)     # broadcast compatibility (raises like numpy)
        masks = {}
        for nm, p_ in (('loc', loc), ('scale', scale)):
            if isinstance(p_, (T, _np.ndarray)):
                t_ = T.lift(p_)
                masks[nm] = (t_, t_.bmask(shape))

        def el(nm, p_, idx):
            if nm in masks:
                t_, m_ = masks[nm]
                return t_.at(idx, shape, m_)
            return w(p_)
        st = self.stream
        if not shape:
            return mk(el('loc', loc, ()) + el('scale', scale, ()) * Z(st, c))
        t_ = T(shape, lambda idx: el('loc', loc, idx) + el('scale', scale, idx) * Z(st, c, *idx))
        if all(sp.sympify(d_).is_Integer for d_ in shape):
            return t_.concrete()        # concrete sizes: an ordinary object array, so that the real numpy code goes on
        return t_

    def standard_normal(self, size=None):
        return self.normal(0, 1, size)

    def lognormal(self, mean=0.0, sigma=1.0, size=None):
        n = self.normal(mean, sigma, size)
        if isinstance(n, T):
            return T(n._shape, lambda idx: sym.Ex(n.fn(idx)))
        if isinstance(n, _np.ndarray):
            return _np.frompyfunc(lambda v: mk(sym.Ex(w(v))), 1, 1)(n)
        return mk(sym.Ex(w(n)))

    def choice(self, a, size=None, replace=True, p=None):
        c = self._next('choice')
        # (probabilities only change the law of the pick, not its provenance)
        if isinstance(a, T):
            n_opt = a._shape[0]
            pick = lambda k: a.fn((k,))
        elif isinstance(a, (S, int, _np.integer)):
            n_opt = w(a)
            pick = lambda k: k
        else:
            arr = _np.asarray(a)
            n_opt = sp.Integer(len(arr))
            if _np.array_equal(arr, _np.arange(len(arr))):
                pick = lambda k: k
            else:
                t_ = T.lift(arr)
                pick = lambda k: t_.fn((k,))
        st = self.stream
        if size is None:
            return mk(pick(CH(st, c, n_opt)))
        shape = self._shape(size)
        t_ = T(shape, lambda idx: pick(CH(st, c, n_opt, *idx)))
        if all(sp.sympify(d_).is_Integer for d_ in shape):
            return t_.concrete()
        return t_

    def integers(self, low, high=None, size=None, **kw):
        c = self._next('integers')
        if size is not None:
            shape = self._shape(size)
            if not all(sp.sympify(d_).is_Integer for d_ in shape):
                raise sym.Unsupported('integers with symbolic size')
            out = _np.empty(tuple(int(d_) for d_ in shape), dtype=object)
            for idx in _np.ndindex(*out.shape):
                e_ = mk(UI(self.stream, c, w(low), w(high) if high is not None else sp.Integer(0), *idx))
                e_.npint = True
                out[idx] = e_
            return out
        r = mk(UI(self.stream, c, w(low), w(high) if high is not None else sp.Integer(0)))
        r.npint = True          # numpy returns numpy.int64, which is *not* an instance of the builtin int
        return r

    def uniform(self, *a, **k):
        raise sym.Unsupported('Generator.uniform')


class GlobalState(object):
    """the process-global numpy generator (np.random.seed / np.random.choice / scipy rvs without random_state)"""

    def __init__(self):
        self.reset()

    def reset(self):
        self.rng = GhostRNG(GLOBAL0)
        self.seed_log = []

    def seed(self, s=None):
        if s is None:
            self.rng = GhostRNG(sp.Symbol('FRESH_ENTROPY_%d' % next(_fresh)))
        else:
            self.rng = GhostRNG(sp.Function('GlobalSeeded')(w(s)))
        self.seed_log.append(s)


GLOBAL = GlobalState()


class RandomShim(object):
    """stands for the numpy.random module inside shadow chi modules"""
    Generator = GhostRNG

    def default_rng(self, seed=None):
        if isinstance(seed, GhostRNG):
            return seed
        if seed is None:
            return GhostRNG(sp.Symbol('FRESH_ENTROPY_%d' % next(_fresh)))
        if isinstance(seed, _np.random.Generator):
            raise sym.Unsupported('real numpy Generator passed into traced code')
        return GhostRNG(Stream(w(seed)))

    def seed(self, s=None):
        GLOBAL.seed(s)

    def normal(self, *a, **k):
        return GLOBAL.rng.normal(*a, **k)

    def standard_normal(self, *a, **k):
        return GLOBAL.rng.standard_normal(*a, **k)

    def lognormal(self, *a, **k):
        return GLOBAL.rng.lognormal(*a, **k)

    def choice(self, *a, **k):
        return GLOBAL.rng.choice(*a, **k)

    def randint(self, low, high=None, size=None, **k):
        return GLOBAL.rng.integers(low, high, size=size)

    def __getattr__(self, name):
        raise sym.Unsupported('numpy.random.%s' % name)


class TruncnormShim(object):
    """stands for scipy.stats.truncnorm"""

    def rvs(self, a, b, loc=0, scale=1, size=None, random_state=None):
        rng = GLOBAL.rng if random_state is None else random_state
        c = rng._next('truncnorm')
        shape = rng._shape(size, loc, scale)
        st = rng.stream

        def f(idx):
            lo_ = rng._elem(loc, idx, shape)
            sc_ = rng._elem(scale, idx, shape)
            aa = rng._elem(a, idx, shape)
            bb = rng._elem(b, idx, shape)
            up = sp.oo if bb == sp.oo else lo_ + bb * sc_
            dn = -sp.oo if aa == -sp.oo else lo_ + aa * sc_
            return TN(st, c, lo_, sc_, dn, up, *idx)
        if not shape:
            return mk(f(()))
        t_ = T(shape, f)
        if all(sp.sympify(d_).is_Integer for d_ in shape):
            return t_.concrete()
        return t_


class NormShim(object):
    """scipy.stats.norm: pdf / cdf as closed forms over the opaque Ex / Erf"""

    def pdf(self, x):
        return tensor._ew(x, lambda v: sym.Ex(-v ** 2 / 2) / sp.sqrt(2 * sp.pi), None) if tensor._symbolic(x) or isinstance(x, T) else _real_norm().pdf(x)

    def cdf(self, x):
        return tensor._ew(x, lambda v: (1 + sym.Erf(v / sp.sqrt(2))) / 2, None) if tensor._symbolic(x) or isinstance(x, T) else _real_norm().cdf(x)


def _real_norm():
    from scipy.stats import norm
    return norm


def random_atoms(e):
    e = sp.sympify(e)
    return sorted([a for a in e.atoms(sp.Function) if isinstance(a, (Z, CH, TN, UI))], key=sp.srepr)


def law_of(e):
    """law of a traced scalar expression in independent ghost atoms.
    Returns dict(kind=..., ...) or raises Unsupported."""
    e = sp.sympify(e)
    atoms = random_atoms(e)
    if not atoms:
        return {'kind': 'dirac', 'value': e, 'atoms': []}
    if isinstance(e, sym.Ex):
        inner = law_of(e.args[0])
        if inner['kind'] == 'normal':
            return {'kind': 'lognormal', 'mu': inner['loc'], 'var': inner['var'], 'atoms': inner['atoms']}
        raise sym.Unsupported('exp of a non-Gaussian expression')
    if e.is_Mul:
        rnd = [f for f in e.args if random_atoms(f)]
        if len(rnd) == 1 and isinstance(rnd[0], sym.Ex):
            rest = sp.Mul(*[f for f in e.args if f is not rnd[0]])
            inner = law_of(rnd[0])
            # c * LogNormal(mu, var) = LogNormal(mu + log c, var) for c > 0 (side condition reported to the caller)
            return {'kind': 'lognormal', 'mu': inner['mu'] + sym.Lg(rest), 'var': inner['var'], 'atoms': inner['atoms'],
                    'side': inner.get('side', []) + [rest > 0]}
    if isinstance(e, TN):
        return {'kind': 'truncnormal', 'loc': e.args[2], 'scale': e.args[3], 'lower': e.args[4], 'upper': e.args[5], 'atoms': [e]}
    if all(isinstance(a, Z) for a in atoms):
        ex = sp.expand(e)
        loc = ex.xreplace({a: sp.Integer(0) for a in atoms})
        var = sp.Integer(0)
        lin = sp.Integer(0)
        for a in atoms:
            c = ex.coeff(a)
            if any(a2 in c.free_symbols or c.has(a2) for a2 in atoms):
                raise sym.Unsupported('non-affine in Gaussian atoms')
            var += c ** 2
            lin += c * a
        if sp.expand(ex - loc - lin) != 0:
            raise sym.Unsupported('non-affine in Gaussian atoms')
        return {'kind': 'normal', 'loc': loc, 'var': var, 'atoms': atoms}
    if all(isinstance(a, CH) for a in atoms) and len(atoms) == 1:
        return {'kind': 'choice', 'atom': atoms[0], 'expr': e, 'atoms': atoms}
    raise sym.Unsupported('law of %s' % (str(e)[:80],))
