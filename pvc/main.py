"""Entry point: python -m pvc.main <ID> [--tier ..] [--only glob] [--replay file] [--jobs N]"""
import argparse
import os
import sys
import warnings

ROOT = os.path.dirname(os.path.dirname(os.path.abspath(__file__)))
sys.path.insert(0, ROOT)
if os.environ.get('CHI_REPO') and os.path.abspath(os.environ['CHI_REPO']) != '/repo':
    sys.path.insert(0, os.path.abspath(os.environ['CHI_REPO']))    # native replays import the same tree as the proofs
warnings.filterwarnings('ignore')


def main():
    ap = argparse.ArgumentParser()
    ap.add_argument('pid')
    ap.add_argument('--tier', default=os.environ.get('VERIF_TIER', 'quick'), choices=['quick', 'thorough'])
    ap.add_argument('--only', default=None)
    ap.add_argument('--replay', default=None)
    ap.add_argument('--jobs', type=int, default=None)
    a = ap.parse_args()
    seed = int(os.environ.get('VERIF_SEED', '0') or 0)
    from contracts.registry import CHECK_MODULES
    if a.pid not in CHECK_MODULES:
        print('CHECKER-FAULT: no check built for %s' % a.pid)
        return 3
    from pvc import harness, loader
    try:
        import importlib
        mod = importlib.import_module(CHECK_MODULES[a.pid])
        meta = dict(getattr(mod, 'META', {}))
        meta['source_digest'] = loader.source_digest()
        return harness.run_check(a.pid, CHECK_MODULES[a.pid], a.tier, seed, a.only, a.replay, a.jobs, meta)
    except Exception as ex:   # a crash of the checker is never a violation
        import traceback
        traceback.print_exc()
        print('CHECKER-FAULT: %s' % ex)
        return 3


if __name__ == '__main__':
    sys.exit(main())
