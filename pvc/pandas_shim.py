"""Row collector standing for pandas inside traced code that only *builds* a table (pd.DataFrame(dict), pd.concat, .empty).
A table is a list of blocks; a block maps column -> scalar | list | tensor | Filtered (sub-sequence)."""
import sympy as sp
from . import sym, tensor
from .sym import S, w


class Table(object):
    def __init__(self, blocks=None, columns=None):
        self.blocks = list(blocks or [])
        self.columns = list(columns or [])

    @property
    def empty(self):
        conds = []
        for b in self.blocks:
            conds.append(block_nonempty(b))
        if not conds:
            return True
        e = sp.Or(*conds)
        return not sym.decide(e)


def block_nonempty(b):
    """sympy condition: the block has at least one row"""
    for v in b.values():
        if isinstance(v, tensor.Filtered):
            q = sp.Symbol('_q0', integer=True)
            body = v.mask.fn((q,))
            return sym.exatom((q,), body, v.mask._shape)
        if isinstance(v, tensor.T):
            return sp.Gt(v._shape[0], 0)
        if isinstance(v, (list, tuple)):
            return sp.true if len(v) else sp.false
    return sp.true


class PandasShim(object):
    def DataFrame(self, data=None, columns=None, **kw):
        if data is None:
            return Table([], columns)
        if isinstance(data, dict):
            return Table([dict(data)], list(data.keys()))
        raise sym.Unsupported('pandas.DataFrame(%s) in traced code' % type(data).__name__)

    def concat(self, objs, **kw):
        blocks = []
        cols = []
        for o in objs:
            if not isinstance(o, Table):
                raise sym.Unsupported('pandas.concat of %s' % type(o).__name__)
            blocks += o.blocks
            cols = cols or o.columns
        return Table(blocks, cols)

    def __getattr__(self, name):
        raise sym.Unsupported('pandas.%s in traced code' % name)
