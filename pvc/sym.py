"""Symbolic scalars, booleans, path oracle and the z3 bridge.

Values are sympy terms.  Floats are mathematical reals.  A symbolic boolean
used in Python control flow asks the path oracle (`explore`), which enumerates
all feasible decision sequences by re-execution.
"""
import itertools
import math
import time
import numbers
import numpy as _np
import sympy as sp
import z3

_cnt = itertools.count()


def fresh(name, **kw):
    return sp.Symbol('%s%d' % (name, next(_cnt)), **kw)


def fidx(name='j'):
    """fresh bound index symbol"""
    return sp.Symbol('_%s%d' % (name, next(_cnt)), integer=True)


class Lg(sp.Function):
    """opaque natural logarithm (never auto-expanded by sympy)"""
    is_real = True

    def fdiff(self, argindex=1):
        return 1 / self.args[0]

    @classmethod
    def eval(cls, a):
        if a == 1:
            return sp.Integer(0)
        if isinstance(a, Ex):
            return a.args[0]
        if a is sp.oo:
            return sp.oo


class Ex(sp.Function):
    """opaque exponential"""
    is_real = True

    def fdiff(self, argindex=1):
        return self

    @classmethod
    def eval(cls, a):
        if a == 0:
            return sp.Integer(1)
        if isinstance(a, Lg):
            return a.args[0]
        if a is -sp.oo:
            return sp.Integer(0)


class Erf(sp.Function):
    """opaque error function"""
    is_real = True

    def fdiff(self, argindex=1):
        return 2 / sp.sqrt(sp.pi) * Ex(-self.args[0] ** 2)

    @classmethod
    def eval(cls, a):
        if a == 0:
            return sp.Integer(0)


class UNINIT_(sp.Function):
    is_real = True


UNINIT = sp.Symbol('UNINIT', real=True)


def w(o):
    """python / numpy / wrapper value -> sympy term"""
    if isinstance(o, (S, B)):
        return o.e
    if isinstance(o, sp.Basic):
        return o
    if isinstance(o, (bool, _np.bool_)):
        return sp.true if o else sp.false
    if isinstance(o, (int, _np.integer)):
        return sp.Integer(int(o))
    if isinstance(o, (float, _np.floating)):
        o = float(o)
        if math.isinf(o):
            return sp.oo if o > 0 else -sp.oo
        if math.isnan(o):
            return sp.nan
        if o == int(o) and abs(o) < 1e15:
            return sp.Integer(int(o))
        # a float literal such as 4 / 3 or 0.4 stands for the real number the programmer wrote: take the simplest
        # rational within one ulp (floats are modelled as reals; stated in the trusted base)
        import fractions
        for lim in (1000, 10 ** 6):
            fr = fractions.Fraction(o).limit_denominator(lim)
            if abs(float(fr) - o) <= 2e-16 * max(1.0, abs(o)):
                return sp.Rational(fr.numerator, fr.denominator)
        return sp.Rational(repr(o))
    if isinstance(o, _np.ndarray) and o.ndim == 0:
        return w(o.item())
    raise TypeError('cannot make symbolic: %r' % (type(o),))


# ---------------------------------------------------------------------------
# z3 bridge
# ---------------------------------------------------------------------------
PI_LO = sp.Rational(314159265, 10 ** 8)
PI_HI = sp.Rational(314159266, 10 ** 8)


class Z3Env:
    def __init__(self):
        self.syms = {}
        self.funs = {}
        self.side = []      # side constraints (pi bounds, ...)
        self.opaque = {}

    def sym(self, e):
        if e not in self.syms:
            nm = str(e)
            if e.is_integer:
                self.syms[e] = z3.Int(nm)
            elif getattr(e, '_pvc_bool', False):
                self.syms[e] = z3.Bool(nm)
            else:
                self.syms[e] = z3.Real(nm)
            # sympy assumptions on the symbol are facts for the solver too
            if e.is_positive:
                self.side.append(self.syms[e] > 0)
            elif e.is_nonnegative:
                self.side.append(self.syms[e] >= 0)
            elif e.is_negative:
                self.side.append(self.syms[e] < 0)
        return self.syms[e]

    def fun(self, name, arg_sorts, ret_sort):
        key = (name, len(arg_sorts))
        if key not in self.funs:
            self.funs[key] = z3.Function(name, *arg_sorts, ret_sort)
        return self.funs[key]

    def exatom(self, e):
        nm = str(e)
        if nm not in self.syms:
            b = z3.Bool(nm)
            self.syms[nm] = b
            idx, body, shape, _ = EXATOMS[nm]
            vs = [to_z3(i, self) for i in idx]
            rng = [z3.And(v >= 0, v < to_z3(d, self)) for v, d in zip(vs, shape)]
            self.side.append(b == z3.Exists(vs, z3.And(*(rng + [to_z3(body, self)]))))
        return self.syms[nm]

    def atom(self, e):
        k = sp.srepr(e)
        if k not in self.opaque:
            self.opaque[k] = z3.Real('atom%d' % len(self.opaque))
        return self.opaque[k]


def _is_int(e):
    return bool(e.is_integer)


def _toreal(x):
    return z3.ToReal(x) if z3.is_int(x) else x


def to_z3(e, env):
    e = sp.sympify(e)
    if e is sp.true:
        return z3.BoolVal(True)
    if e is sp.false:
        return z3.BoolVal(False)
    if e.is_Symbol:
        if str(e) in EXATOMS:
            return env.exatom(e)
        return env.sym(e)
    if e.is_Integer:
        return z3.IntVal(int(e))
    if e.is_Rational:
        return z3.RealVal(str(e))
    if e is sp.pi:
        if 'pi' not in env.opaque:
            p = z3.Real('pi')
            env.opaque['pi'] = p
            env.side.append(p > z3.RealVal(str(PI_LO)))
            env.side.append(p < z3.RealVal(str(PI_HI)))
        return env.opaque['pi']
    if e.is_Float:
        return z3.RealVal(str(sp.Rational(str(e))))
    if e.is_Add or e.is_Mul:
        args = [to_z3(a, env) for a in e.args]
        if any(z3.is_real(a) for a in args):
            args = [_toreal(a) for a in args]
        r = args[0]
        for a in args[1:]:
            r = (r + a) if e.is_Add else (r * a)
        return r
    if e.is_Pow:
        b, x = e.base, e.exp
        if x.is_Integer:
            bz = to_z3(b, env)
            n = abs(int(x))
            r = bz
            for _ in range(n - 1):
                r = r * bz
            if x > 0:
                return r
            return z3.RealVal(1) / _toreal(r)
        if x.is_Rational and x.q == 2:
            # sqrt(b)^p : introduce r >= 0, r*r == b
            k = 'sqrt_' + sp.srepr(b)
            if k not in env.opaque:
                rz = z3.Real('sqrt%d' % len(env.opaque))
                env.opaque[k] = rz
                bz = _toreal(to_z3(b, env))
                env.side.append(rz >= 0)
                env.side.append(rz * rz == bz)
            rz = env.opaque[k]
            return to_z3(sp.Symbol('__tmp', real=True) ** x.p, _OneShot(env, rz))
        return env.atom(e)
    if isinstance(e, (sp.Le, sp.Lt, sp.Ge, sp.Gt, sp.Eq, sp.Ne)):
        l, r = to_z3(e.lhs, env), to_z3(e.rhs, env)
        if z3.is_bool(l) or z3.is_bool(r):
            return (l == r) if isinstance(e, sp.Eq) else (l != r)
        if z3.is_real(l) or z3.is_real(r):
            l, r = _toreal(l), _toreal(r)
        return {sp.Le: lambda: l <= r, sp.Lt: lambda: l < r, sp.Ge: lambda: l >= r, sp.Gt: lambda: l > r,
                sp.Eq: lambda: l == r, sp.Ne: lambda: l != r}[type(e)]()
    if isinstance(e, sp.And):
        return z3.And(*[to_z3(a, env) for a in e.args])
    if isinstance(e, sp.Or):
        return z3.Or(*[to_z3(a, env) for a in e.args])
    if isinstance(e, sp.Not):
        return z3.Not(to_z3(e.args[0], env))
    if isinstance(e, sp.Implies):
        return z3.Implies(to_z3(e.args[0], env), to_z3(e.args[1], env))
    if isinstance(e, sp.floor):
        a = e.args[0]
        num, den = sp.fraction(sp.together(a))
        if den != 1 and num.is_integer and den.is_integer:
            nz, dz = to_z3(num, env), to_z3(den, env)
            if z3.is_int(nz) and z3.is_int(dz):
                if den.is_positive is not True:
                    env.side.append(dz > 0)      # floor semantics of z3 div hold for positive divisors only
                return nz / dz
        az = to_z3(a, env)
        if z3.is_int(az):
            return az
        return z3.ToInt(az)
    if isinstance(e, sp.Mod):
        a, b = to_z3(e.args[0], env), to_z3(e.args[1], env)
        if z3.is_int(a) and z3.is_int(b):
            return a % b
        return env.atom(e)
    if isinstance(e, sp.Piecewise):
        r = None
        for val, cond in reversed(e.args):
            v = to_z3(val, env)
            if r is None:
                r = v
            else:
                c = to_z3(cond, env)
                if z3.is_real(v) != z3.is_real(r):
                    v, r = _toreal(v), _toreal(r)
                r = z3.If(c, v, r)
        return r
    if isinstance(e, sp.KroneckerDelta):
        a, b = to_z3(e.args[0], env), to_z3(e.args[1], env)
        return z3.If(a == b, z3.IntVal(1), z3.IntVal(0))
    if isinstance(e, (sp.Max, sp.Min)):
        args = [to_z3(a, env) for a in e.args]
        if any(z3.is_real(a) for a in args):
            args = [_toreal(a) for a in args]
        r = args[0]
        for a in args[1:]:
            r = z3.If(a >= r, a, r) if isinstance(e, sp.Max) else z3.If(a <= r, a, r)
        return r
    if isinstance(e, sp.Abs):
        a = to_z3(e.args[0], env)
        return z3.If(a >= 0, a, -a)
    if isinstance(e, sp.Indexed):
        idx = [to_z3(i, env) for i in e.indices]
        ret = z3.IntSort() if e.base.label.is_integer else z3.RealSort()
        f = env.fun(str(e.base.label), [z3.IntSort()] * len(idx), ret)
        return f(*idx)
    if isinstance(e, sp.Function) and not isinstance(e, sp.Sum):
        args = [to_z3(a, env) for a in e.args]
        ret = z3.IntSort() if e.is_integer else z3.RealSort()
        f = env.fun(type(e).__name__, [a.sort() for a in args], ret)
        r = f(*args)
        if isinstance(e, Ex):
            env.side.append(r > 0)
        return r
    if e is sp.oo or e is -sp.oo or e is sp.zoo or e is sp.nan:
        return env.atom(e)
    return env.atom(e)


class _OneShot(Z3Env):
    """environment mapping a single placeholder symbol to a given z3 term"""

    def __init__(self, base, term):
        self.__dict__ = base.__dict__
        self._t = term

    def sym(self, e):
        if str(e) == '__tmp':
            return self._t
        return Z3Env.sym(self, e)


STATS = {'z3_calls': 0, 'z3_time': 0.0}
_cache = {}


def z3_check(conds, goal=None, timeout_ms=3000):
    """returns 'unsat' / 'sat' / 'unknown' for conds /\\ not goal (goal None: just conds)"""
    key = (tuple(_key(c) for c in conds), None if goal is None else _key(goal))
    if key in _cache:
        return _cache[key]
    t = time.time()
    env = Z3Env()
    s = z3.Solver()
    s.set('timeout', timeout_ms)
    try:
        fs = [_z(c, env) for c in conds]
        if goal is not None:
            fs.append(z3.Not(_z(goal, env)))
        for f in fs + env.side:
            s.add(f)
        r = str(s.check())
    except (z3.Z3Exception, TypeError, AttributeError) as ex:   # pragma: no cover
        r = 'unknown'
    STATS['z3_calls'] += 1
    STATS['z3_time'] += time.time() - t
    _cache[key] = r
    return r


def z3_model(conds, timeout_ms=5000):
    env = Z3Env()
    s = z3.Solver()
    s.set('timeout', timeout_ms)
    for c in conds:
        s.add(_z(c, env))
    for f in env.side:
        s.add(f)
    if s.check() != z3.sat:
        return None
    m = s.model()
    out = {}
    for sy, zv in env.syms.items():
        v = m.eval(zv, model_completion=True)
        try:
            if z3.is_int_value(v):
                out[sy] = int(v.as_long())
            elif z3.is_rational_value(v):
                out[sy] = float(v.numerator_as_long()) / float(v.denominator_as_long())
            elif z3.is_algebraic_value(v):
                out[sy] = float(v.approx(20).as_decimal(15).rstrip('?'))
            elif z3.is_true(v) or z3.is_false(v):
                out[sy] = bool(z3.is_true(v))
        except Exception:   # pragma: no cover
            pass
    return out


def feasible(conds):
    return z3_check(conds) != 'unsat'


def entails(conds, goal):
    goal = _sy(goal)
    if goal is sp.true:
        return True
    if goal is sp.false:
        return z3_check(conds) == 'unsat'
    return z3_check(conds, goal) == 'unsat'


# ---------------------------------------------------------------------------
# path oracle
# ---------------------------------------------------------------------------
class PathCtx:
    def __init__(self, decisions, assumptions):
        self.decisions = list(decisions)
        self.pos = 0
        self.n_assume = len(assumptions)
        self.conds = list(assumptions)
        self.notes = []          # domain obligations etc. collected along the path
        self.heap = {}

    def path_conds(self):
        return self.conds[self.n_assume:]


CTX = None
MAX_PATHS = 400


class TooManyPaths(Exception):
    pass


class Unsupported(Exception):
    """construct outside the symbolic model: the obligation is undecided, never a violation"""


def ctx():
    if CTX is None:
        raise Unsupported('symbolic boolean used outside explore()')
    return CTX


def decide(e):
    """truth value of sympy boolean e on the current path (forking if undetermined)"""
    e = sp.sympify(e)
    if e is sp.true:
        return True
    if e is sp.false:
        return False
    c = ctx()
    if entails(c.conds, e):
        return True
    if entails(c.conds, sp.Not(e)):
        return False
    if c.pos < len(c.decisions):
        d = c.decisions[c.pos]
    else:
        d = True
        c.decisions.append(True)
    c.pos += 1
    c.conds.append(e if d else sp.Not(e))
    return d


def assume(e):
    """add a fact to the current path (used by contracts of stubs)"""
    ctx().conds.append(sp.sympify(e))


def explore(fn, assumptions=(), max_paths=None):
    """Run fn under every feasible decision sequence.
    Returns list of (path_conds, ('ret', value) | ('raise', exc), ctx)."""
    global CTX
    stack = [[]]
    out = []
    saved = CTX
    try:
        while stack:
            dec = stack.pop()
            c = PathCtx(dec, [_sy(a) for a in assumptions])
            CTX = c
            try:
                r = ('ret', fn())
            except (Unsupported, TooManyPaths):
                raise
            except Exception as ex:
                r = ('raise', ex)
            out.append((c.path_conds(), r, c))
            if len(out) > (max_paths or MAX_PATHS):
                raise TooManyPaths('more than %d paths' % (max_paths or MAX_PATHS))
            for k in range(len(dec), len(c.decisions)):
                stack.append(c.decisions[:k] + [False])
    finally:
        CTX = saved
    return out


# ---------------------------------------------------------------------------
# symbolic boolean / scalar wrappers
# ---------------------------------------------------------------------------
EXATOMS = {}     # name -> (idx symbols, body, shape): boolean atom  EXISTS idx in range(shape): body


def exatom(idx, body, shape):
    key = sp.srepr(body) + '|' + sp.srepr(sp.Tuple(*shape))
    for nm, (i2, b2, s2, k2) in EXATOMS.items():
        if k2 == key:
            return sp.Symbol(nm)
    nm = 'EX%d' % len(EXATOMS)
    EXATOMS[nm] = (idx, body, tuple(shape), key)
    return sp.Symbol(nm)


class QFact(object):
    """universally quantified fact  FORALL idx: body  (only at the top level of a condition list)"""

    def __init__(self, idx, body):
        self.idx = tuple(idx)
        self.body = sp.sympify(body)

    def key(self):
        return 'QF(%s,%s)' % (sp.srepr(sp.Tuple(*self.idx)), sp.srepr(self.body))

    def __repr__(self):
        return 'forall %s: %s' % (self.idx, self.body)


def _sy(c):
    return c if isinstance(c, QFact) else sp.sympify(c)


def _key(c):
    return c.key() if isinstance(c, QFact) else sp.srepr(sp.sympify(c))


def _z(c, env):
    if isinstance(c, QFact):
        vs = [to_z3(i, env) for i in c.idx]
        return z3.ForAll(vs, to_z3(c.body, env))
    return to_z3(sp.sympify(c), env)


class B(object):
    __array_ufunc__ = None

    def __init__(self, e):
        self.e = sp.sympify(e)

    def __bool__(self):
        return decide(self.e)

    def __or__(s, o):
        return mkB(sp.Or(s.e, w(o)))
    __ror__ = __or__

    def __and__(s, o):
        return mkB(sp.And(s.e, w(o)))
    __rand__ = __and__

    def __invert__(s):
        return mkB(sp.Not(s.e))

    def __repr__(s):
        return 'B(%s)' % (s.e,)


def mkB(e):
    e = sp.sympify(e)
    if e is sp.true:
        return True
    if e is sp.false:
        return False
    return B(e)


def _rel(rel, a, b):
    a, b = sp.sympify(a), sp.sympify(b)
    d = a - b
    if d.is_number and d.is_finite is not False and not d.has(sp.oo, sp.nan):
        try:
            dv = sp.N(d, 30)
            if dv.is_real:
                v = {sp.Le: dv <= 0, sp.Lt: dv < 0, sp.Ge: dv >= 0, sp.Gt: dv > 0, sp.Eq: sp.simplify(d) == 0,
                     sp.Ne: sp.simplify(d) != 0}[rel]
                return bool(v)
        except TypeError:
            pass
    if a in (sp.oo, -sp.oo) or b in (sp.oo, -sp.oo):
        r = rel(a, b)
        if r in (sp.true, sp.false):
            return bool(r)
        # finite symbolic vs infinity
        if rel in (sp.Eq,):
            return False
        if rel in (sp.Ne,):
            return True
    return mkB(rel(a, b, evaluate=False) if rel in (sp.Eq, sp.Ne) else rel(a, b))


class S(object):
    """symbolic scalar (integer or real)"""
    __array_ufunc__ = None
    __array_priority__ = 1000

    def __init__(self, e):
        self.e = e.e if isinstance(e, S) else sp.sympify(e)

    # -- helpers
    @staticmethod
    def _lift(o, f):
        r = _np.frompyfunc(f, 1, 1)(o)
        return r

    def _bin(s, o, f):
        from . import tensor
        if isinstance(o, tensor.T):
            return NotImplemented
        if isinstance(o, _np.ndarray):
            return S._lift(o, lambda x: f(s, x))
        if isinstance(o, (list, tuple)):
            return NotImplemented
        return f(s, o)

    def __add__(s, o):
        return s._bin(o, lambda a, b: mk(w(a) + w(b)))

    def __radd__(s, o):
        return s._bin(o, lambda a, b: mk(w(b) + w(a)))

    def __sub__(s, o):
        return s._bin(o, lambda a, b: mk(w(a) - w(b)))

    def __rsub__(s, o):
        return s._bin(o, lambda a, b: mk(w(b) - w(a)))

    def __mul__(s, o):
        if isinstance(o, list):
            from .seq import repeat
            return repeat(o, s)
        return s._bin(o, lambda a, b: mk(w(a) * w(b)))

    def __rmul__(s, o):
        if isinstance(o, list):
            from .seq import repeat
            return repeat(o, s)
        return s._bin(o, lambda a, b: mk(w(b) * w(a)))

    def __truediv__(s, o):
        return s._bin(o, lambda a, b: mk(w(a) / w(b)))

    def __rtruediv__(s, o):
        return s._bin(o, lambda a, b: mk(w(b) / w(a)))

    def __floordiv__(s, o):
        return s._bin(o, lambda a, b: mk(sp.floor(w(a) / w(b))))

    def __rfloordiv__(s, o):
        return s._bin(o, lambda a, b: mk(sp.floor(w(b) / w(a))))

    def __mod__(s, o):
        return s._bin(o, lambda a, b: mk(sp.Mod(w(a), w(b))))

    def __pow__(s, o):
        return s._bin(o, lambda a, b: mk(_pow(w(a), w(b))))

    def __rpow__(s, o):
        return s._bin(o, lambda a, b: mk(_pow(w(b), w(a))))

    def __neg__(s):
        return mk(-s.e)

    def __pos__(s):
        return s

    def __abs__(s):
        return mk(sp.Abs(s.e))

    def __le__(s, o):
        return s._bin(o, lambda a, b: _rel(sp.Le, w(a), w(b)))

    def __lt__(s, o):
        return s._bin(o, lambda a, b: _rel(sp.Lt, w(a), w(b)))

    def __ge__(s, o):
        return s._bin(o, lambda a, b: _rel(sp.Ge, w(a), w(b)))

    def __gt__(s, o):
        return s._bin(o, lambda a, b: _rel(sp.Gt, w(a), w(b)))

    def __eq__(s, o):
        if o is None or isinstance(o, str):
            return False
        return s._bin(o, lambda a, b: _rel(sp.Eq, w(a), w(b)))

    def __ne__(s, o):
        if o is None or isinstance(o, str):
            return True
        return s._bin(o, lambda a, b: _rel(sp.Ne, w(a), w(b)))

    def __hash__(s):
        return hash(s.e)

    def __bool__(s):
        return decide(sp.Ne(s.e, 0))

    def __index__(s):
        if s.e.is_Integer:
            return int(s.e)
        raise Unsupported('symbolic integer %s used where CPython needs a concrete int' % (s.e,))

    def __int__(s):
        if s.e.is_Integer:
            return int(s.e)
        raise Unsupported('int() of symbolic %s' % (s.e,))

    def __float__(s):
        if s.e.is_number and not s.e.has(Lg, Ex):
            return float(s.e)
        raise Unsupported('float() of symbolic %s' % (s.e,))

    def __repr__(s):
        return 'S(%s)' % (str(s.e)[:200],)

    # numpy object-array ufunc protocol
    def log(s):
        return mk(mklog(s.e))

    def exp(s):
        return mk(mkexp(s.e))

    def sqrt(s):
        return mk(sp.sqrt(s.e))

    def conjugate(s):
        return s

    @property
    def real(s):
        return s

    @property
    def ndim(s):
        return 0

    @property
    def shape(s):
        return ()


def _pow(a, b):
    if b.is_Rational and not b.is_Integer and b.q != 2:
        # a ** (p/q): opaque through exp/log for positive a
        return Ex(b * Lg(a))
    return a ** b


def mklog(e):
    e = sp.sympify(e)
    if e.is_number and e.is_positive and e.is_Rational:
        return Lg(e)
    return Lg(e)


def mkexp(e):
    return Ex(sp.sympify(e))


def mk(e):
    """sympy term -> python value (concrete number when closed and rational, wrapper otherwise)"""
    if isinstance(e, bool):
        return e
    e = sp.sympify(e)
    if e is sp.true:
        return True
    if e is sp.false:
        return False
    if e.is_Symbol:
        return mkB(e) if str(e) in EXATOMS else S(e)
    if isinstance(e, (sp.logic.boolalg.BooleanFunction, sp.core.relational.Relational)):
        return mkB(e)
    return S(e)


def is_sym(x):
    return isinstance(x, (S, B))
