"""Symbolic-length Python sequences (lists of names etc.)."""
import sympy as sp
from .sym import S, w, Unsupported


class Seq(object):
    def __init__(self, n, fn):
        self.n = sp.sympify(w(n))
        self.fn = fn

    def __len__(self):
        if self.n.is_Integer:
            return int(self.n)
        raise Unsupported('len() of symbolic sequence')


def repeat(lst, k):
    if isinstance(k, S) and k.e.is_Integer:
        return lst * int(k.e)
    L = len(lst)
    return Seq(w(k) * L, lambda i: lst[0] if L == 1 else None)
