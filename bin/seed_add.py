#!/usr/bin/env python3
"""bin/seed_add.py <PID> <mK> [check ids...]: confirm a sub-agent mutation in its scratch worktree (tests still pass, demo
fails with it and passes without it), copy it to seeded/<PID>-<mK>/, run the named checks against /repo with the patch
applied (undone straight afterwards) and record everything in meta.json."""
import json, os, shutil, subprocess, sys, time
ROOT = os.path.dirname(os.path.dirname(os.path.abspath(__file__)))
pid, mk = sys.argv[1], sys.argv[2]
checks = sys.argv[3:] or [pid]
# a later round of sub-agent changes lives elsewhere: SEED_SRC / SEED_WT name its directories, SEED_AS the name it is filed under
src = '%s/%s/%s' % (os.environ.get('SEED_SRC', '/tmp/wt_out'), pid, mk)
wt = '%s/%s' % (os.environ.get('SEED_WT', '/tmp/wt'), pid)
dst = os.path.join(ROOT, 'seeded', '%s-%s' % (pid, os.environ.get('SEED_AS', mk)))
def sh(cmd, **kw):
    p = subprocess.run(cmd, shell=True, capture_output=True, text=True, **kw)
    return p.returncode, (p.stdout + p.stderr)
meta = {'property': pid, 'source': 'independent sub-agent given only the property text and its own scratch worktree', 'ran': []}
rc, out = sh('git -C %s checkout -- . && git -C %s apply %s/patch.diff' % (wt, wt, src)); assert rc == 0, out
rc, out = sh('/tmp/wt_tools/run_tests.sh %s' % wt)
meta['ran'].append({'cmd': '/tmp/wt_tools/run_tests.sh (repository test suite with the change)', 'exit': rc, 'tail': out.strip().splitlines()[-1:]})
tests_ok = (rc == 0)
rc1, out1 = sh('cd %s && /venv/bin/python %s/demo.py' % (wt, src))
meta['ran'].append({'cmd': 'demo.py with the change', 'exit': rc1, 'tail': out1.strip().splitlines()[-3:]})
sh('git -C %s checkout -- .' % wt)
rc0, out0 = sh('cd %s && /venv/bin/python %s/demo.py' % (wt, src))
meta['ran'].append({'cmd': 'demo.py without the change', 'exit': rc0, 'tail': out0.strip().splitlines()[-2:]})
meta['confirmed'] = bool(tests_ok and rc1 != 0 and rc0 == 0)
readme = open(os.path.join(src, 'README.md')).read() if os.path.exists(os.path.join(src, 'README.md')) else ''
meta['needs_to_manifest'] = readme[:1500]
# run checks with the patch: by default against a scratch worktree of /repo's HEAD (CHI_REPO=<copy>; /repo itself stays
# untouched, so background runs that read /repo are not disturbed); SEED_IN_REPO=1 applies it to /repo and undoes it afterwards
det = {}
def run_checks(env_prefix):
    from concurrent.futures import ThreadPoolExecutor
    def one(c):
        t = time.time()
        rcc, outc = sh('%s PVC_EVIDENCE_DIR=/tmp/pvc_seed_out/%s-%s-%s %s/bin/check %s --tier quick --jobs 6' % (env_prefix, pid, mk, c, ROOT, c))
        viol = [l for l in outc.splitlines() if l.startswith('VIOLATION')]
        fault = [l for l in outc.splitlines() if l.startswith('CHECKER-FAULT')]
        return c, {'exit': rcc, 'violations': viol[:6], 'n_violation_lines': len(viol), 'checker_faults': fault[:3], 'wall_s': round(time.time() - t, 1)}
    with ThreadPoolExecutor(3) as ex:
        for c, r in ex.map(one, checks):
            det[c] = r
if os.environ.get('SEED_IN_REPO'):
    rc, out = sh('git -C /repo status --porcelain'); assert out.strip() == '', 'repo dirty: ' + out
    rc, out = sh('git -C /repo apply %s/patch.diff' % src)
    meta['applies_to_repo_head'] = (rc == 0)
    if rc == 0:
        try:
            run_checks('')
        finally:
            sh('git -C /repo checkout -- .')
else:
    import tempfile
    os.makedirs('/tmp/scratch', exist_ok=True)
    tree = tempfile.mkdtemp(prefix='seed_', dir='/tmp/scratch'); os.rmdir(tree)
    rc, out = sh('git -C /repo worktree add --detach %s HEAD' % tree); assert rc == 0, out
    try:
        rc, out = sh('git -C %s apply %s/patch.diff' % (tree, src))
        meta['applies_to_repo_head'] = (rc == 0)
        meta['evaluated_on'] = 'scratch worktree of /repo HEAD with the patch applied (CHI_REPO)'
        if rc == 0:
            run_checks('CHI_REPO=%s' % tree)
    finally:
        sh('git -C /repo worktree remove --force %s' % tree); shutil.rmtree(tree, ignore_errors=True)
if rc != 0:
    # the patch no longer applies to /repo's HEAD (a later fix: commit rewrote the lines): evaluate on the agent's own scratch
    # worktree (the older tree), comparing the violation lines with and without the patch
    def run_on(tree):
        out_ = {}
        for c in checks:
            rcc, outc = sh('CHI_REPO=%s PVC_EVIDENCE_DIR=/tmp/pvc_seed_out %s/bin/check %s --tier quick' % (tree, ROOT, c))
            out_[c] = sorted(l for l in outc.splitlines() if l.startswith('VIOLATION'))
        return out_
    sh('git -C %s checkout -- .' % wt)
    before = run_on(wt)
    sh('git -C %s apply %s/patch.diff' % (wt, src))
    after = run_on(wt)
    sh('git -C %s checkout -- .' % wt)
    for c in checks:
        new = [l for l in after[c] if l not in before[c]]
        det[c] = {'exit': 1 if after[c] else 0, 'violations': new[:6], 'n_violation_lines': len(new), 'evaluated_on': 'scratch worktree at the pre-fix commit (patch does not apply to HEAD); violations listed are those not present without the patch'}
meta['detection'] = det
meta['detected_by'] = [c for c, v in det.items() if v['exit'] == 1 and v['n_violation_lines'] > 0]
if meta['confirmed']:
    os.makedirs(dst, exist_ok=True)
    for f in os.listdir(src):
        if f.endswith(('.py', '.diff', '.md')):
            shutil.copy(os.path.join(src, f), dst)
    json.dump(meta, open(os.path.join(dst, 'meta.json'), 'w'), indent=1)
print(json.dumps({k: meta[k] for k in ('confirmed', 'applies_to_repo_head', 'detected_by')}), {c: (v['exit'], v['n_violation_lines']) for c, v in det.items()})
