"""bin/canary <ID> [name...]: apply each committed canary (a property-breaking text edit of chi) to a scratch copy of
/repo outside /repo and /verif, run the quick check against the copy, expect a VIOLATION on the named obligation,
remove the copy.  Exit 0 iff every canary is detected (and the unmodified copy passes)."""
import fnmatch, glob, json, os, shutil, subprocess, sys, tempfile

ROOT = os.path.dirname(os.path.dirname(os.path.abspath(__file__)))


def run(pid, repo, only=None):
    env = dict(os.environ, CHI_REPO=repo, PVC_EVIDENCE_DIR=os.path.join(repo, '_evidence'))
    cmd = [os.path.join(ROOT, 'bin', 'check'), pid, '--tier', 'quick']
    p = subprocess.run(cmd, env=env, capture_output=True, text=True)
    return p.returncode, p.stdout + p.stderr


def main():
    pid = sys.argv[1]
    names = sys.argv[2:]
    cans = sorted(glob.glob(os.path.join(ROOT, 'contracts', 'canaries', pid, '*.json')))
    bad = 0
    for c in cans:
        spec = json.load(open(c))
        nm = os.path.basename(c)[:-5]
        if names and nm not in names:
            continue
        tmp = tempfile.mkdtemp(prefix='pvc_canary_')
        try:
            shutil.copytree('/repo/chi', os.path.join(tmp, 'chi'), ignore=shutil.ignore_patterns('__pycache__', 'tests'))
            for ed in spec['edits']:
                path = os.path.join(tmp, ed['file'])
                s = open(path).read()
                cnt = s.count(ed['find'])
                nth = ed.get('nth')
                if cnt == 0 or (cnt > 1 and nth is None):
                    print('CANARY %s/%s: edit does not apply uniquely (%d matches) -> stale canary' % (pid, nm, cnt))
                    bad += 1
                    break
                if nth is None:
                    s = s.replace(ed['find'], ed['replace'])
                else:
                    parts = s.split(ed['find'])
                    s = ed['find'].join(parts[:nth + 1]) + ed['replace'] + ed['find'].join(parts[nth + 1:])
                open(path, 'w').write(s)
            else:
                rc, out = run(pid, tmp)
                viol = [l for l in out.splitlines() if l.startswith('VIOLATION')]
                obl = [l for l in out.splitlines() if l.strip().startswith('obligation ')]
                hit = any(fnmatch.fnmatchcase(l.split()[1], spec['expect']) for l in obl)
                ok = (rc == 1 and viol and hit)
                print('CANARY %s/%s: %s (exit %d; %d violation lines; expected %s)%s' % (
                    pid, nm, 'detected' if ok else 'MISSED', rc, len(viol), spec['expect'],
                    '' if ok else '\n' + '\n'.join(out.splitlines()[-12:])))
                if not ok:
                    bad += 1
        finally:
            shutil.rmtree(tmp, ignore_errors=True)
    return 1 if bad else 0


sys.exit(main())
