#!/usr/bin/env python3
"""bin/seed_regress.py [--only-check ID] [seed-name ...]: re-run, for every confirmed seeded change in seeded/, the checks that detected it
when it was imported (meta.json: detected_by) against a scratch copy of /repo's HEAD with the patch applied, and report the seeds that no
recorded check detects any more.  Seeds whose patch no longer applies to HEAD (they predate a fix: commit of the same lines) are listed
as skipped.  Exit 0 iff every applicable seed is still detected."""
import json, os, subprocess, sys, tempfile, shutil
from concurrent.futures import ThreadPoolExecutor
ROOT = os.path.dirname(os.path.dirname(os.path.abspath(__file__)))
args = sys.argv[1:]
only_check = None
if args[:1] == ['--only-check']:
    only_check = args[1]; args = args[2:]
names = args or sorted(os.listdir(os.path.join(ROOT, 'seeded')))
os.makedirs('/tmp/scratch', exist_ok=True)


def sh(cmd):
    p = subprocess.run(cmd, shell=True, capture_output=True, text=True)
    return p.returncode, p.stdout + p.stderr


def one(name):
    d = os.path.join(ROOT, 'seeded', name)
    try:
        meta = json.load(open(os.path.join(d, 'meta.json')))
    except Exception:
        return name, 'no-meta', []
    if meta.get('noop_on_head'):
        return name, 'no-op on the repaired tree (see meta.json)', []
    ids = [c for c in meta.get('detected_by', []) if only_check in (None, c)]
    if not ids:
        return name, 'not-selected', []
    tree = tempfile.mkdtemp(prefix='sr_', dir='/tmp/scratch'); os.rmdir(tree)
    rc, out = sh('git -C /repo worktree add --detach %s HEAD' % tree)
    if rc != 0:
        return name, 'worktree-failed', []
    try:
        rc, out = sh('git -C %s apply %s/patch.diff' % (tree, d))
        if rc != 0:
            return name, 'skipped (patch does not apply to HEAD)', []
        hit = []
        for c in ids:
            rcc, outc = sh('CHI_REPO=%s PVC_EVIDENCE_DIR=%s/_ev_%s %s/bin/check %s --tier quick --jobs 4' % (tree, tree, c, ROOT, c))
            if rcc == 1 and any(l.startswith('VIOLATION') for l in outc.splitlines()):
                hit.append(c)
                break
        return name, ('detected' if hit else 'MISSED'), hit
    finally:
        sh('git -C /repo worktree remove --force %s' % tree)
        shutil.rmtree(tree, ignore_errors=True)


bad = 0
with ThreadPoolExecutor(4) as ex:
    for name, status, hit in ex.map(one, names):
        if status not in ('not-selected',):
            print('%-10s %s %s' % (name, status, ','.join(hit)), flush=True)
        if status == 'MISSED':
            bad += 1
print('seed_regress: %d missed' % bad)
sys.exit(1 if bad else 0)
