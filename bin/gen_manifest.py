#!/usr/bin/env python3
"""Regenerate MANIFEST.json from contracts/registry.py (single source of truth)."""
import json, os, sys
ROOT = os.path.dirname(os.path.dirname(os.path.abspath(__file__)))
sys.path.insert(0, ROOT)
from contracts.registry import CHECKS, NOT_APPLICABLE, BASELINE_CMD

def main():
    checks = []
    for pid in sorted(CHECKS):
        c = CHECKS[pid]
        checks.append({
            "property_id": pid,
            "quick_cmd": "bin/check %s --tier quick" % pid,
            "thorough_cmd": "bin/check %s --tier thorough" % pid,
            "evidence_file": "evidence/%s.json" % pid,
            "replay_cmd_template": "bin/check %s --replay {path}" % pid,
            "engine": "pvc",
            "level_claimed": {"category": c["category"], "text": c["text"], "design_ref": c["design_ref"]},
            "level_note": c["note"],
            "technique": c["technique"],
        })
    props = [json.loads(l)["id"] for l in open(os.path.join(ROOT, "properties.jsonl"))]
    na = [{"property_id": p, "reason": NOT_APPLICABLE.get(p, "check not built yet (see DESIGN.md section 6.1 build order); not claimed")}
          for p in props if p not in CHECKS]
    m = {
        "version": 1,
        "setup_cmd": "bin/setup.sh",
        "hooks": {"guard": "CHI_VERIF", "enable": "none: no hook commits exist; contracts are sidecar files in /verif and the real chi source text is re-read from /repo on every run",
                  "baseline_off_cmd": BASELINE_CMD, "source_commits": [], "add_only": True},
        "engines": [{"name": "pvc", "path": "pvc/", "serves_properties": sorted(CHECKS),
                     "kind_free_text": "contract-based deductive verifier built for this task: sidecar contracts on the real chi functions; the unmodified function bodies are executed on symbolic tensors/values (sympy terms, symbolic shapes) by CPython with a path oracle; obligations are discharged by a Sigma-normal-form rewriter + z3 (+cvc5); refuted obligations are replayed natively on the installed chi"}],
        "checks": checks,
        "not_applicable": na,
        "notes": "Exit codes of bin/check: 0 held (possibly with KNOWN-FINDING lines), 1 VIOLATION (replayed natively), 3 checker fault. See DESIGN.md.",
    }
    json.dump(m, open(os.path.join(ROOT, "MANIFEST.json"), "w"), indent=1)
    print("MANIFEST.json: %d checks, %d not_applicable" % (len(checks), len(na)))
main()
