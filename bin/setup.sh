#!/bin/sh
# Build the offline overlay interpreter /verif/.venv: /venv's CPython 3.12 (chi's
# own dependencies: numpy, scipy, myokit, pints, pandas, ...) plus z3-solver, cvc5,
# sympy, mpmath and jsonschema from the offline wheelhouse.  Idempotent.
set -e
cd "$(dirname "$0")/.."
V=.venv
if [ -x "$V/bin/python" ] && "$V/bin/python" -c "import z3, sympy, cvc5, jsonschema, numpy, chi" 2>/dev/null; then
  echo "setup: $V already complete"; exit 0
fi
rm -rf "$V"
/venv/bin/python -m venv --without-pip "$V"
echo "import site; site.addsitedir('/venv/lib/python3.12/site-packages')" > "$V/lib/python3.12/site-packages/_overlay.pth"
PIP_NO_INDEX=1 /venv/bin/python -m pip --python "$V/bin/python" install -q --no-index --find-links /opt/veriftools/wheels z3-solver cvc5 sympy mpmath jsonschema
"$V/bin/python" -c "import z3, sympy, cvc5, jsonschema, numpy, chi; print('setup: ok', z3.get_version_string(), sympy.__version__)"
