#!/usr/bin/env python3
"""bin/tree_eval.py <patch.diff> [--par N] [--jobs N] [ids...]: run quick checks against a scratch copy of /repo's HEAD with
<patch.diff> applied (CHI_REPO=<copy>; /repo itself is not touched), print one summary line per check and the VIOLATION /
CHECKER-FAULT lines, remove the copy.  Used for seeded (property-breaking) and benign (behaviour-preserving) changes."""
import json, os, subprocess, sys, tempfile, shutil, time
from concurrent.futures import ThreadPoolExecutor
ROOT = os.path.dirname(os.path.dirname(os.path.abspath(__file__)))
args = sys.argv[1:]
par, jobs = 4, 4
while args and args[0].startswith('--'):
    k = args.pop(0); v = int(args.pop(0))
    if k == '--par': par = v
    if k == '--jobs': jobs = v
patch = os.path.abspath(args[0]); ids = args[1:]
if not ids:
    ids = [c['property_id'] for c in json.load(open(os.path.join(ROOT, 'MANIFEST.json')))['checks']]
os.makedirs('/tmp/scratch', exist_ok=True)
tree = tempfile.mkdtemp(prefix='te_', dir='/tmp/scratch')
os.rmdir(tree)
def sh(cmd, **kw):
    p = subprocess.run(cmd, shell=True, capture_output=True, text=True, **kw)
    return p.returncode, p.stdout + p.stderr
rc, out = sh('git -C /repo worktree add --detach %s HEAD' % tree); assert rc == 0, out
res = {}
try:
    rc, out = sh('git -C %s apply %s' % (tree, patch))
    if rc != 0:
        print('PATCH-DOES-NOT-APPLY', out.strip()[:300]); sys.exit(2)
    def run(pid):
        t = time.time()
        ev = os.path.join(tree, '_evidence_' + pid)
        rc, out = sh('CHI_REPO=%s PVC_EVIDENCE_DIR=%s %s/bin/check %s --tier quick --jobs %d' % (tree, ev, ROOT, pid, jobs))
        lines = [l for l in out.splitlines() if l.startswith(('VIOLATION', 'CHECKER-FAULT', 'KNOWN-FINDING', '  undecided')) or (' tier=' in l and l.startswith(pid))]
        return pid, rc, lines, round(time.time() - t, 1), out
    with ThreadPoolExecutor(par) as ex:
        for pid, rc, lines, wall, out in ex.map(run, ids):
            res[pid] = rc
            summ = [l for l in lines if ' tier=' in l]
            print('[exit %d] %s  (%.0fs)' % (rc, summ[0] if summ else pid + ': no summary line', wall))
            for l in lines:
                if l.startswith(('VIOLATION', 'CHECKER-FAULT')) or (rc != 0 and l.startswith('  undecided')):
                    print('     ' + l[:400])
            if rc not in (0, 1) or (rc != 0 and not any(l.startswith('VIOLATION') for l in lines)):
                print('     ---- tail of output ----'); print('\n'.join('     ' + l[:300] for l in out.splitlines()[-15:]))
finally:
    sh('git -C /repo worktree remove --force %s' % tree)
    shutil.rmtree(tree, ignore_errors=True)
print('SUMMARY', json.dumps(res))
