#!/bin/sh
# bin/benign_sweep.sh [group ...]: run the checks that read the touched module against every behaviour-preserving change in benign/
# (scratch copies of /repo's HEAD, /repo untouched); every line must be [exit 0]
HERE="$(cd "$(dirname "$0")/.." && pwd)"; cd "$HERE" || exit 3
ids_for() {
  case "${1%b}" in
    B1) echo "C04 C01 C03 C06 C08 C16 C17 C19 C15" ;;
    B2) echo "C05 C06 C02 C03 C16 C17 C19 C13 C18 C15" ;;
    B3) echo "C05 C07 C02 C03 C06 C08 C16 C17 C19 C13 C18 C15" ;;
    B4) echo "C01 C02 C03 C08 C14 C16 C17 C18 C19" ;;
    B5) echo "C12 C13 C16 C17 C18 C19" ;;
    B6) echo "C09 C10 C11 C08 C19 C14 C17" ;;
    B7) echo "C15 C16 C10 C08 C17 C18 C19" ;;
    B8) echo "C14 C18 C20 C10 C17 C08 C19" ;;
  esac
}
rc=0
for d in benign/*/; do
  n=$(basename "$d"); g=${n%%-*}
  [ $# -gt 0 ] && ! echo " $* " | grep -q " $g " && continue
  echo "== $n"
  out=$(bin/tree_eval.py --par 3 --jobs 5 "$d/patch.diff" $(ids_for "$g") 2>&1 | grep -v conda)
  echo "$out" | grep -E "^\[exit|VIOLATION|CHECKER-FAULT|PATCH" | cut -c1-220
  echo "$out" | grep -q "^\[exit [^0]" && rc=1
done
exit $rc
